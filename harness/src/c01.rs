//! C01: a party without a signature of the statement's issuer cannot assemble an accepted presentation.
use crate::adv::*;
use crate::common::*;
use crate::pres::*;
use credx::knox::short_group_sig_core::short_group_traits::ShortGroupSignatureScheme;
use credx::presentation::{Presentation, PresentationProofs, PresentationSchema};
use credx::statement::*;
use serde_json::{json, Value};

fn attack<S: ShortGroupSignatureScheme>(em: &mut Emitter, suite: &str, name: &str, scn: &Scn<S>, p: &Presentation<S>) {
    em.oracle_case(&format!("{} {} {}", suite, name, scn.mix.describe()));
    // model: the plan stage of `verify` on the structure of this object vs "did the real verifier reach the challenge"
    let (class, v) = plan_class(p, &scn.schema, &scn.nonce);
    em.op(plan_line(&scn.schema, p, suite), class);
    em.count(&format!("{}:{}", name.split(' ').next().unwrap(), v.class()));
    match v {
        Out::Ok(_) => em.violation(
            &format!("c01:{}", name.split(' ').next().unwrap()),
            format!("{}: presentation assembled without a signature of the statement's issuer is accepted (attack {})", suite, name),
            scn.replay(json!({"suite": suite, "attack": name, "presentation": serde_json::to_value(p).unwrap_or_default()})),
        ),
        Out::Panic(m) => em.violation(&format!("c01-panic:{}", name.split(' ').next().unwrap()), format!("{}: verify panicked on attack {}: {}", suite, name, m), scn.replay(json!({"suite": suite, "attack": name}))),
        Out::Err => {}
    }
}

fn attack_json<S: ShortGroupSignatureScheme>(em: &mut Emitter, suite: &str, name: &str, scn: &Scn<S>, v: &Value, fix: bool) {
    match pres_from_value::<S>(v) {
        Out::Ok(mut p) => {
            if fix {
                fix_challenge(&mut p, &scn.schema, &scn.nonce, 3);
            }
            attack(em, suite, name, scn, &p);
        }
        _ => em.count(&format!("{}:undecodable", name.split(' ').next().unwrap())),
    }
}

fn run_suite<S: ShortGroupSignatureScheme + 'static>(em: &mut Emitter, base: &mut Rng, suite: &str) {
    let off = if suite == "bbs" { 0 } else { 1 };
    let is_bbs = suite == "bbs";
    for k in 0..em.n(6, 60) {
        if !em.mine(2 * k + off) {
            continue;
        }
        let rng = &mut base.sub((2 * k + off) as u64);
        let n_claims = 3 + rng.below(4) as usize;
        let mut mix = Mix { n_creds: 1, n_claims, age: rng.range(0, 90), ..Default::default() };
        let mut d = vec![];
        for i in 1..n_claims {
            if rng.chance(1, 2) {
                d.push(LABELS[i].to_string());
            }
        }
        // a disclosed claim whose type has a zero-encoded value (attack A8) in two scenarios out of three
        if k % 3 == 0 && !d.iter().any(|l| l == "age") {
            d.push("age".into());
        }
        if k % 3 == 1 && n_claims >= 4 && !d.iter().any(|l| l == "ssn") {
            d.push("ssn".into());
        }
        // every claim disclosed (no hidden message at all: the proof of knowledge has only its two blinding responses)
        if k % 6 == 4 {
            d = LABELS[..n_claims].iter().map(|l| l.to_string()).collect();
        }
        mix.disclosed = vec![d];
        if k % 3 == 2 {
            mix.commitment = Some(2);
            mix.disclosed[0].retain(|l| l != "age");
        }
        // the target: issuer I with a legitimate holder (whose presentations the adversary may observe)
        let target = Scn::<S>::build(rng, &mix);
        let sid = target.sig_ids[0].clone();
        // observed in an earlier session (another nonce): replaying it unchanged is C04's business
        let mut earlier = rng.bytes(16);
        earlier.push(1);
        let observed = match call(|| Presentation::create(&target.credentials, &target.schema, &earlier)) {
            Out::Ok(p) => p,
            _ => continue,
        };
        // the adversary: same schema shape, own issuer J, own claims
        let mut adv = Scn::<S>::build(rng, &mix);
        adv.nonce = target.nonce.clone();
        // adversary's credential under the *target's* schema (statement names issuer I)
        let mut world = Scn::<S> { schema: target.schema.clone(), nonce: target.nonce.clone(), ..adv };
        world.publics = target.publics.clone();
        // A0: honest prover code on J's credential with I's statement
        let base = match world.create() {
            Out::Ok(p) => p,
            _ => continue,
        };
        attack(em, suite, "other-issuer-credential", &world, &base);
        // A0': proof valid for J (prover ran against J's statement), presented for I with the verifier's challenge
        {
            let stmts: Vec<Statements<S>> = target
                .schema
                .statements
                .values()
                .map(|s| match s {
                    Statements::Signature(ss) => {
                        let mut t = (**ss).clone();
                        t.issuer = world.bundles[0].issuer.clone();
                        t.into()
                    }
                    o => o.clone(),
                })
                .collect();
            let schema_j = PresentationSchema::new_with_id(&stmts, &target.schema.id);
            if let Out::Ok(p) = steered_create(&world.credentials, &schema_j, &target.schema, &world.nonce, None) {
                attack(em, suite, "transplant-from-other-issuer", &world, &p);
            }
        }
        // A8: the adversary *does* hold a credential of issuer I, over another claim vector: a disclosed claim is hidden
        // inside the proof of knowledge and reported with a value no signature of I covers (false value, or the one value
        // of its type that encodes to the zero scalar, which contributes the identity to the verifier's equations)
        {
            let claims = target.bundles[0].credential.claims.clone();
            let requested: std::collections::BTreeSet<String> = mix.disclosed[0].iter().cloned().collect();
            for l in mix.disclosed[0].clone() {
                let li = LABELS.iter().position(|x| *x == l).unwrap();
                let mut less = requested.clone();
                less.remove(&l);
                let schema_less = crate::c02::with_disclosed(&target.schema, &sid, &less);
                let zero: Option<credx::claim::ClaimData> = match &claims[li] {
                    credx::claim::ClaimData::Number(_) => Some(credx::claim::NumberClaim::from(isize::MIN).into()),
                    credx::claim::ClaimData::Scalar(_) => Some(credx::claim::ScalarClaim::from(Scalar::ZERO).into()),
                    _ => None,
                };
                for (nm, val) in [("unsigned-vector-false-value", Some(crate::c02::false_claim(&claims[li], false))), ("unsigned-vector-zero-encoded-value", zero)] {
                    let val = match val {
                        Some(v) if v.to_scalar() != claims[li].to_scalar() => v,
                        _ => continue,
                    };
                    let mut rep = indexmap::IndexMap::new();
                    for (i, lab) in LABELS.iter().enumerate().take(n_claims) {
                        if less.contains(*lab) {
                            rep.insert(lab.to_string(), claims[i].clone());
                        }
                    }
                    let sc = val.to_scalar();
                    rep.insert(l.clone(), val);
                    let mut reported = Reported::new();
                    reported.insert(sid.clone(), rep);
                    if let Out::Ok(p) = steered_create(&target.credentials, &schema_less, &target.schema, &target.nonce, Some(reported)) {
                        attack(em, suite, nm, &target, &p);
                        // the proof's own (index, scalar) list padded with the reported scalar, so that the comparison of
                        // reported claims and proof passes and only the proof of knowledge stands in the way
                        let mut q = p.clone();
                        if let Some(PresentationProofs::Signature(sp)) = q.proofs.get_mut(&sid) {
                            sp.disclosed_messages.insert(li, sc);
                        }
                        attack(em, suite, &format!("{}-listed-in-proof", nm), &target, &q);
                    }
                }
            }
        }
        // A7: free challenge
        for (nm, c) in [("challenge-zero", Scalar::ZERO), ("challenge-one", Scalar::ONE), ("challenge-random", rng.scalar())] {
            let mut p = base.clone();
            p.challenge = c;
            attack(em, suite, nm, &world, &p);
        }
        {
            let mut p = base.clone();
            fix_challenge(&mut p, &world.schema, &world.nonce, 3);
            attack(em, suite, "challenge-as-verifier-computes", &world, &p);
        }
        // A5: proof omitted
        {
            let mut p = base.clone();
            p.proofs.shift_remove(&sid);
            fix_challenge(&mut p, &world.schema, &world.nonce, 2);
            attack(em, suite, "signature-proof-omitted", &world, &p);
        }
        // A1: every other proof variant under the signature statement's id
        let pool_mix = Mix { n_creds: 2, n_claims: 4, disclosed: vec![vec![], vec![]], revocation: true, membership: true, equality: true, commitment: Some(2), range: Some((Some(0), Some(200))), verenc: Some((1, false)), ved: if k == 0 { Some(3) } else { None }, age: 33, ..Default::default() };
        let pool_scn = Scn::<S>::build(rng, &pool_mix);
        if let Out::Ok(pool) = pool_scn.create() {
            for (_, pr) in &pool.proofs {
                let variant = match pr {
                    PresentationProofs::Signature(_) => continue,
                    PresentationProofs::Revocation(_) => "revocation",
                    PresentationProofs::Equality(_) => "equality",
                    PresentationProofs::Commitment(_) => "commitment",
                    PresentationProofs::VerifiableEncryption(_) => "verenc",
                    PresentationProofs::Range(_) => "range",
                    PresentationProofs::Membership(_) => "membership",
                    PresentationProofs::VerifiableEncryptionDecryption(_) => "ved",
                };
                let mut p = base.clone();
                p.proofs.insert(sid.clone(), pr.clone());
                fix_challenge(&mut p, &world.schema, &world.nonce, 3);
                attack(em, suite, &format!("variant-under-signature-id {}", variant), &world, &p);
                // the same proof re-labelled with the signature statement's id (passes the "stored under its own id" test)
                let mut pv = serde_json::to_value(pr).unwrap_or(Value::Null);
                if let Some(m) = pv.as_object_mut() {
                    for (_, inner) in m.iter_mut() {
                        inner["id"] = json!(sid.clone());
                    }
                }
                let mut v = serde_json::to_value(&base).unwrap_or(Value::Null);
                v["proofs"][&sid] = pv;
                attack_json(em, suite, &format!("variant-relabelled-under-signature-id {}", variant), &world, &v, true);
            }
        }
        // A6: the legitimate holder's observed signature proof with the adversary's reported claims
        {
            let mut p = base.clone();
            if let Some(pr) = observed.proofs.get(&sid) {
                p.proofs.insert(sid.clone(), pr.clone());
            }
            fix_challenge(&mut p, &world.schema, &world.nonce, 3);
            attack(em, suite, "observed-proof-with-own-claims", &world, &p);
        }
        // JSON level: response vectors of every length, identity elements, forged commitments
        let bv = serde_json::to_value(&base).unwrap();
        let ov = serde_json::to_value(&observed).unwrap();
        let pok_path: Vec<String> = ["proofs", sid.as_str(), "Signature", "pok"].iter().map(|s| s.to_string()).collect();
        let hidden_plus_2 = bv["proofs"][&sid]["Signature"]["pok"]["proof"].as_array().map(|a| a.len()).unwrap_or(0);
        for len in 0..=hidden_plus_2 + 2 {
            let mut v = bv.clone();
            let arr: Vec<Value> = (0..len).map(|i| bv["proofs"][&sid]["Signature"]["pok"]["proof"].get(i).cloned().unwrap_or_else(|| json!(sc_hex(&rng.scalar())))).collect();
            get_mut(&mut v, &pok_path).unwrap()["proof"] = json!(arr);
            attack_json(em, suite, &format!("response-vector-length delta={}", len as i64 - hidden_plus_2 as i64), &world, &v, true);
        }
        let pkv = serde_json::to_value(&target.publics[0].verifying_key).unwrap();
        let inner: Vec<(usize, Scalar)> = match base.proofs.get(&sid) {
            Some(PresentationProofs::Signature(sp)) => {
                let mut l: Vec<(usize, Scalar)> = sp.disclosed_messages.iter().map(|(i, s)| (*i, *s)).collect();
                l.sort_by_key(|(i, _)| *i);
                l
            }
            _ => vec![],
        };
        if is_bbs {
            // over-long vector with a harvested (P, xP) pair: t is computed from freely chosen responses
            let ys: Vec<G1Projective> = pkv["y"].as_array().unwrap().iter().map(|h| g1_of_hex(h.as_str().unwrap()).unwrap()).collect();
            let abar = g1_of_hex(ov["proofs"][&sid]["Signature"]["pok"]["a_bar"].as_str().unwrap()).unwrap();
            let bbar = g1_of_hex(ov["proofs"][&sid]["Signature"]["pok"]["b_bar"].as_str().unwrap()).unwrap();
            let known: Vec<usize> = inner.iter().map(|(i, _)| *i).collect();
            let hid: Vec<G1Projective> = ys.iter().enumerate().filter(|(i, _)| !known.contains(i)).map(|(_, y)| *y).collect();
            let lhs = -inner.iter().fold(G1Projective::IDENTITY, |a, (i, m)| a + ys[*i] * *m) - G1Projective::GENERATOR;
            for extra in 1..=2usize {
                let resp: Vec<Scalar> = (0..hid.len() + 2 + extra).map(|_| rng.scalar()).collect();
                let mut t = G1Projective::IDENTITY;
                for (j, h) in hid.iter().enumerate() {
                    t += *h * resp[j];
                }
                t += abar * resp[hid.len()] + bbar * resp[hid.len() + 1] + lhs * resp[hid.len() + 2];
                let mut v = bv.clone();
                *get_mut(&mut v, &pok_path).unwrap() = json!({"a_bar": g1_hex_c(&abar), "b_bar": g1_hex_c(&bbar), "t": g1_hex_c(&t), "proof": resp.iter().map(sc_hex).collect::<Vec<_>>()});
                attack_json(em, suite, &format!("overlong-forgery extra={}", extra), &world, &v, true);
            }
            // simulated proof of exact length: a harvested (Ā, B̄) pair re-randomised, responses chosen at random, the
            // challenge learned from a dry run, t solved from the verification equation — works iff the challenge does
            // not depend on t
            {
                let rho = rng.scalar();
                let (a2, b2) = (abar * rho, bbar * rho);
                let resp: Vec<Scalar> = (0..hid.len() + 2).map(|_| rng.scalar()).collect();
                let mut v = bv.clone();
                *get_mut(&mut v, &pok_path).unwrap() = json!({"a_bar": g1_hex_c(&a2), "b_bar": g1_hex_c(&b2), "t": g1_hex_c(&(G1Projective::GENERATOR * rng.scalar())), "proof": resp.iter().map(sc_hex).collect::<Vec<_>>()});
                if let Out::Ok(p0) = pres_from_value::<S>(&v) {
                    let (_, ch, _) = verify_logged(&p0, &world.schema, &world.nonce);
                    if let Some(c1) = ch {
                        let mut t = G1Projective::IDENTITY;
                        for (j, h) in hid.iter().enumerate() {
                            t += *h * resp[j];
                        }
                        t += a2 * resp[hid.len()] + b2 * resp[hid.len() + 1] + lhs * (-c1);
                        get_mut(&mut v, &pok_path).unwrap()["t"] = json!(g1_hex_c(&t));
                        v["challenge"] = json!(sc_hex(&c1));
                        attack_json(em, suite, "simulated-proof-for-a-learned-challenge", &world, &v, false);
                    }
                }
            }
            // a harvested (Ā, B̄) pair re-randomised, with a freely chosen `t` and random responses of the exact length: only
            // the Schnorr equation (recomputed `t`) ties the pair to the reported claims — also when nothing is hidden
            for round in 0..2 {
                let rho = rng.scalar();
                let resp: Vec<Scalar> = (0..hid.len() + 2).map(|_| rng.scalar()).collect();
                let mut v = bv.clone();
                *get_mut(&mut v, &pok_path).unwrap() = json!({"a_bar": g1_hex_c(&(abar * rho)), "b_bar": g1_hex_c(&(bbar * rho)), "t": g1_hex_c(&(G1Projective::GENERATOR * rng.scalar())), "proof": resp.iter().map(sc_hex).collect::<Vec<_>>()});
                attack_json(em, suite, &format!("harvested-pair-free-t hidden={} #{}", hid.len(), round), &world, &v, true);
            }
            {
                let mut v = bv.clone();
                for f in ["a_bar", "b_bar"] {
                    get_mut(&mut v, &pok_path).unwrap()[f] = json!(g1_hex_c(&G1Projective::IDENTITY));
                }
                attack_json(em, suite, "identity-element a_bar+b_bar", &world, &v, true);
                get_mut(&mut v, &pok_path).unwrap()["t"] = json!(g1_hex_c(&G1Projective::IDENTITY));
                attack_json(em, suite, "identity-element a_bar+b_bar+t", &world, &v, true);
            }
            for f in ["a_bar", "b_bar", "t"] {
                let mut v = bv.clone();
                get_mut(&mut v, &pok_path).unwrap()[f] = json!(g1_hex_c(&G1Projective::IDENTITY));
                attack_json(em, suite, &format!("identity-element {}", f), &world, &v, true);
            }
        } else {
            // PS forgery without any signature: σ₂ = k σ₁, J = k g2 - X - Σ revealed, one response too many
            let x = g2_of_hex(pkv["x"].as_str().unwrap()).unwrap();
            let ys: Vec<G2Projective> = pkv["y"].as_array().unwrap().iter().map(|h| g2_of_hex(h.as_str().unwrap()).unwrap()).collect();
            let hidden = ys.len() - inner.len();
            for extra in 1..=2usize {
                let s1 = G1Projective::GENERATOR * rng.scalar();
                let kk = rng.scalar();
                let j = G2Projective::GENERATOR * kk - x - inner.iter().fold(G2Projective::IDENTITY, |a, (i, m)| a + ys[*i] * *m);
                let resp: Vec<Scalar> = (0..hidden + 2 + extra).map(|_| rng.scalar()).collect();
                let mut v = bv.clone();
                *get_mut(&mut v, &pok_path).unwrap() = json!({"sigma_1": g1_hex_c(&s1), "sigma_2": g1_hex_c(&(s1 * kk)), "commitment": g2_hex_c(&j), "proof": resp.iter().map(sc_hex).collect::<Vec<_>>()});
                attack_json(em, suite, &format!("overlong-forgery extra={}", extra), &world, &v, true);
            }
            for f in ["sigma_1", "sigma_2"] {
                let mut v = bv.clone();
                get_mut(&mut v, &pok_path).unwrap()[f] = json!(g1_hex_c(&G1Projective::IDENTITY));
                attack_json(em, suite, &format!("identity-element {}", f), &world, &v, true);
            }
            {
                // both points at infinity: the pairing equation holds for every key and every message vector
                let mut v = bv.clone();
                for f in ["sigma_1", "sigma_2"] {
                    get_mut(&mut v, &pok_path).unwrap()[f] = json!(g1_hex_c(&G1Projective::IDENTITY));
                }
                attack_json(em, suite, "identity-element sigma_1+sigma_2", &world, &v, true);
                // … and the commitment too: what the verifier hashes then no longer depends on the challenge
                get_mut(&mut v, &pok_path).unwrap()["commitment"] = json!(g2_hex_c(&G2Projective::IDENTITY));
                attack_json(em, suite, "identity-element sigma_1+sigma_2+commitment", &world, &v, true);
            }
            let mut v = bv.clone();
            get_mut(&mut v, &pok_path).unwrap()["commitment"] = json!(g2_hex_c(&G2Projective::IDENTITY));
            attack_json(em, suite, "identity-element commitment", &world, &v, true);
        }
        if k < 2 {
            em.sample(json!({"suite": suite, "mix": mix.describe(), "attacks": "other-issuer-credential, transplant, challenge-*, omitted, 7 variants, observed-proof, lengths 0..h+4, overlong-forgery, identity-element"}));
        }
    }
}

/// Several signature statements: every one of them needs its own issuer's signature. The adversary holds genuine
/// credentials for all statements but one and, for that one, a credential it signed itself (own key pair, same credential
/// schema) — `Presentation::create` does not look at signatures, so everything except the check against the named
/// issuer's key is consistent.
fn unbacked_statement<S: ShortGroupSignatureScheme + 'static>(em: &mut Emitter, base: &mut Rng, suite: &str) {
    let off = if suite == "bbs" { 0 } else { 1 };
    for k in 0..em.n(3, 18) {
        if !em.mine(2 * k + off) {
            continue;
        }
        let rng = &mut base.sub(7000 + (2 * k + off) as u64);
        let n_creds = 2 + k % 2;
        let n_claims = 3 + rng.below(3) as usize;
        let mut mix = Mix { n_creds, n_claims, age: rng.range(0, 90), disclosed: vec![vec!["name".to_string()]; n_creds], shuffle: k % 3 == 2, ..Default::default() };
        if k % 3 == 1 {
            mix.revocation = true;
        }
        let target = Scn::<S>::build(rng, &mix);
        let adv = Scn::<S>::build(rng, &mix);
        // honest control: the genuine holder is accepted
        em.oracle_case(&format!("{} multi-statement control {}", suite, mix.describe()));
        match target.create() {
            Out::Ok(p) if target.verify(&p).is_ok() => {}
            _ => {
                em.count("multi-statement:control-failed");
                continue;
            }
        }
        for j in 0..n_creds {
            let mut creds = target.credentials.clone();
            creds.insert(target.sig_ids[j].clone(), adv.bundles[j].credential.clone().into());
            // keep the statement order of the credentials map as in the target
            let creds: indexmap::IndexMap<String, credx::presentation::PresentationCredential<S>> = target.credentials.keys().map(|k| (k.clone(), creds[k].clone())).collect();
            let world = Scn::<S> { mix: target.mix.clone(), issuers: vec![], publics: target.publics.clone(), bundles: vec![], sig_ids: target.sig_ids.clone(), schema: target.schema.clone(), credentials: creds, nonce: target.nonce.clone(), stmt_ids: target.stmt_ids.clone() };
            match world.create() {
                Out::Ok(p) => attack(em, suite, &format!("self-signed-credential-for-statement {} of {}", j, n_creds), &world, &p),
                _ => em.count("multi-statement:create-refused"),
            }
        }
    }
}

pub fn gen_c01(em: &mut Emitter, rng: &mut Rng) {
    em.rule = "adversary without any signature of the statement's issuer (owns a credential of another issuer with the same schema, observes \
               legitimate presentations): honest prover code on the foreign credential, proof valid for the other issuer transplanted with the verifier's \
               challenge (steered prover), zero / one / random / verifier-computed challenge, omitted proof, each of the 7 other proof variants \
               under the signature statement's id, observed proof with own claims, response vectors of every length 0..hidden+4, over-long vectors \
               with forged commitments (BBS: harvested (P,xP) pair; PS: σ₂ = kσ₁ with no signature at all), identity elements (one and both points); holder of a genuine credential reporting an unsigned / zero-encoded value; \
               2-3 signature statements with a self-signed credential under each one in turn. oracle: any Ok".into();
    run_suite::<Bbs>(em, rng, "bbs");
    run_suite::<Ps>(em, rng, "ps");
    unbacked_statement::<Bbs>(em, rng, "bbs");
    unbacked_statement::<Ps>(em, rng, "ps");
}
