//! C15: the issuer signs exactly schema-conformant claim vectors and returns valid credentials.
use crate::claims::claim_str;
use crate::common::*;
use credx::claim::*;
use credx::credential::{ClaimSchema, CredentialSchema};
use credx::issuer::Issuer;
use credx::knox::accumulator::vb20::Element;
use credx::knox::short_group_sig_core::short_group_traits::{ShortGroupSignatureScheme, Signature as _};
use serde_json::json;

fn type_name(t: ClaimType) -> &'static str {
    match t {
        ClaimType::Hashed => "hashed",
        ClaimType::Number => "number",
        ClaimType::Scalar => "scalar",
        ClaimType::Revocation => "revocation",
        ClaimType::Enumeration => "enumeration",
        ClaimType::Unknown => "unknown",
    }
}

fn rand_validator(rng: &mut Rng) -> ClaimValidator {
    let on = |rng: &mut Rng, vals: &[usize]| if rng.chance(1, 3) { None } else { Some(*rng.pick(vals)) };
    match rng.below(4) {
        0 => ClaimValidator::Length { min: on(rng, &[0, 1, 3, 5]), max: on(rng, &[0, 3, 5, 8, usize::MAX]) },
        1 => {
            let oi = |rng: &mut Rng| if rng.chance(1, 3) { None } else { Some(*rng.pick(&[isize::MIN, -5, 0, 7, 18, isize::MAX])) };
            ClaimValidator::Range { min: oi(rng), max: oi(rng) }
        }
        2 => ClaimValidator::regex_from_string(*rng.pick(&["^[a-c]+$", "\\d{2,4}", "^$", "é", "^.{1,4}$", ".", "[^a-z]", "\u{fffd}", "^a"])).unwrap(),
        _ => ClaimValidator::AnyOne(vec![HashedClaim::from("abc").into(), NumberClaim::from(7).into(), RevocationClaim::from("rev-1").into(), HashedClaim::from(vec![0xffu8, 0xfe]).into()]),
    }
}

fn rand_claim(rng: &mut Rng, t: ClaimType) -> ClaimData {
    match t {
        ClaimType::Hashed => match rng.below(6) {
            // not UTF-8: alone, around text a pattern could match, truncated multi-byte sequence
            0 => HashedClaim::from(rng.pick(&[vec![0xffu8, 0xfe], vec![0xff, b'1', b'2', b'3'], vec![b'a', b'b', 0xff], vec![b'a', 0xc3], vec![0xc3, 0x28], vec![0xed, 0xa0, 0x80]]).clone()).into(),
            1 => HashedClaim::from("").into(),
            _ => HashedClaim::from(*rng.pick(&["abc", "abcabc", "12", "12345", "é", "abcdefghij"])).into(),
        },
        ClaimType::Number => NumberClaim::from(*rng.pick(&[isize::MIN, -6, -5, -1, 0, 6, 7, 8, 17, 18, 19, isize::MAX])).into(),
        ClaimType::Scalar => ScalarClaim::from(rng.scalar()).into(),
        ClaimType::Revocation => RevocationClaim::from(*rng.pick(&["rev-1", "rev-2", "ab", "abc", "1234", "é", "éé", "日本", "ée\u{301}"])).into(),
        ClaimType::Enumeration => EnumerationClaim { dst: "e".into(), value: rng.below(3) as u8, total_values: 3 }.into(),
        ClaimType::Unknown => NumberClaim::from(0).into(),
    }
}

fn validator_tok(v: &ClaimValidator, claim: Option<&ClaimData>) -> String {
    let o = |x: Option<String>| x.unwrap_or("_".into());
    match v {
        ClaimValidator::Length { min, max } => format!("L.{}.{}", o(min.map(|x| x.to_string())), o(max.map(|x| x.to_string()))),
        ClaimValidator::Range { min, max } => format!("R.{}.{}", o(min.map(|x| x.to_string())), o(max.map(|x| x.to_string()))),
        ClaimValidator::Regex(rx) => {
            // the regex crate's verdict on this position's claim text
            let m = match claim {
                Some(ClaimData::Hashed(h)) => String::from_utf8(h.value.clone()).map(|s| rx.is_match(&s)).unwrap_or(false),
                Some(ClaimData::Revocation(r)) => rx.is_match(&r.value),
                _ => false,
            };
            format!("X.{}", if m { 1 } else { 0 })
        }
        ClaimValidator::AnyOne(cs) => format!("A.{}", cs.iter().map(claim_str).collect::<Vec<_>>().join("!")),
    }
}

/// the property's predicate, written independently of the code under test
fn conformant(schema: &[ClaimSchema], revoked: &[String], claims: &[ClaimData]) -> bool {
    if claims.len() != schema.len() {
        return false;
    }
    let mut revs = vec![];
    for (c, t) in claims.iter().zip(schema) {
        if !c.is_type(t.claim_type) {
            return false;
        }
        for v in &t.validators {
            let ok = match (v, c) {
                (ClaimValidator::Length { min, max }, ClaimData::Hashed(h)) => min.unwrap_or(0) <= h.value.len() && h.value.len() <= max.unwrap_or(usize::MAX),
                (ClaimValidator::Length { min, max }, ClaimData::Revocation(h)) => min.unwrap_or(0) <= h.value.len() && h.value.len() <= max.unwrap_or(usize::MAX),
                (ClaimValidator::Range { min, max }, ClaimData::Number(n)) => min.unwrap_or(isize::MIN) <= n.value && n.value <= max.unwrap_or(isize::MAX),
                (ClaimValidator::Regex(rx), ClaimData::Hashed(h)) => match std::str::from_utf8(&h.value) {
                    Ok(s) => rx.is_match(s),
                    Err(_) => false,
                },
                (ClaimValidator::Regex(rx), ClaimData::Revocation(r)) => rx.is_match(&r.value),
                (ClaimValidator::AnyOne(cs), c) => cs.iter().any(|x| claim_str(x) == claim_str(c)), // full representation, independent of ClaimData's own ==
                _ => false, // validator does not apply to this claim type
            };
            if !ok {
                return false;
            }
        }
        if let ClaimData::Revocation(r) = c {
            revs.push(r.value.clone());
        }
    }
    revs.len() == 1 && !revoked.contains(&revs[0])
}


/// one issuance attempt on the real issuer: model line, conformance oracle, checks on what is returned
fn eval_case<S: ShortGroupSignatureScheme>(em: &mut Emitter, suite: &str, k: usize, cs: &CredentialSchema, schema_claims: &[ClaimSchema], issuer: &mut Issuer<S>, revoked: &[String], claims: &[ClaimData]) {
    let claims = claims.to_vec();
    let revoked = revoked.to_vec();
    let schema_claims = schema_claims.to_vec();
    let before = (issuer.revocation_registry.elements.clone(), issuer.revocation_registry.active.clone(), issuer.revocation_registry.value);
    let res = call(|| issuer.sign_credential(&claims));
    let want = conformant(&schema_claims, &revoked, &claims);
    // model line: `revoked` flag is about this vector's (single) revocation identifier
    let this_revoked = claims.iter().any(|c| matches!(c, ClaimData::Revocation(r) if revoked.contains(&r.value)));
    let schema_tok = schema_claims
        .iter()
        .enumerate()
        .map(|(i, c)| format!("{}~{}", type_name(c.claim_type), if c.validators.is_empty() { "-".to_string() } else { c.validators.iter().map(|v| validator_tok(v, claims.get(i))).collect::<Vec<_>>().join(",") }))
        .collect::<Vec<_>>()
        .join(";");
    let claims_tok = if claims.is_empty() { "-".to_string() } else { claims.iter().map(claim_str).collect::<Vec<_>>().join(";") };
    em.op(format!("is.sign {} {} {}", if this_revoked { 1 } else { 0 }, schema_tok, claims_tok), res.class());
    em.oracle_case(&format!("{} {} {} {}", suite, k, schema_tok, claims_tok));
    em.count(&format!("{}:{}", if want { "conformant" } else { "non-conformant" }, res.class()));
    let replay = json!({"suite": suite, "schema": serde_json::to_value(&cs).unwrap_or_default(), "claims": serde_json::to_value(&claims).unwrap_or_default(), "revoked": revoked});
    match (&res, want) {
        (Out::Panic(m), _) => em.violation("c15:sign-panic", format!("{}: sign_credential panicked: {}", suite, m), replay.clone()),
        (Out::Ok(_), false) => em.violation("c15:non-conformant-signed", format!("{}: a non-conformant claim vector was signed", suite), replay.clone()),
        (Out::Err, true) => em.violation("c15:conformant-refused", format!("{}: a conformant claim vector was refused", suite), replay.clone()),
        _ => {}
    }
    match &res {
        Out::Ok(b) => {
            let msgs: Vec<Scalar> = claims.iter().map(|c| c.to_scalar()).collect();
            if b.credential.signature.verify(&b.issuer.verifying_key, &msgs).is_err() {
                em.violation("c15:returned-signature-invalid", format!("{}: the returned credential's signature does not verify on the claims' encodings", suite), replay.clone());
            }
            let rid = claims.iter().find_map(|c| if let ClaimData::Revocation(r) = c { Some(r.value.clone()) } else { None }).unwrap_or_default();
            if !b.credential.revocation_handle.verify(Element::hash(rid.as_bytes()), b.issuer.revocation_verifying_key, b.issuer.revocation_registry) {
                em.violation("c15:returned-handle-invalid", format!("{}: the returned revocation handle does not verify against the published registry value", suite), replay.clone());
            }
            if b.credential.claims != claims {
                em.violation("c15:returned-claims-differ", format!("{}: the returned credential carries other claims", suite), replay.clone());
            }
        }
        Out::Err => {
            let r = &issuer.revocation_registry;
            if r.elements != before.0 || r.active != before.1 || r.value != before.2 {
                em.violation("c15:error-issues-something", format!("{}: sign_credential returned an error but changed the registry", suite), replay.clone());
            }
        }
        _ => {}
    }
}

/// systematic grid: every catalogue validator × every catalogue value, on a two-claim schema [revocation, x]
fn grid<S: ShortGroupSignatureScheme>(em: &mut Emitter, suite: &str) {
    let rx = |p: &str| ClaimValidator::regex_from_string(p).unwrap();
    let validators: Vec<ClaimValidator> = vec![
        rx("^[a-c]+$"), rx("\\d{2,4}"), rx("^$"), rx("é"), rx("^.{1,4}$"), rx("."), rx("[^a-z]"), rx("\u{fffd}"), rx("^a"), rx("^\\d{2,4}$"), rx("(?s)^.*$"),
        ClaimValidator::Length { min: None, max: None }, ClaimValidator::Length { min: Some(2), max: Some(3) }, ClaimValidator::Length { min: Some(3), max: Some(2) }, ClaimValidator::Length { min: None, max: Some(0) },
        ClaimValidator::Range { min: None, max: None }, ClaimValidator::Range { min: Some(-5), max: Some(7) }, ClaimValidator::Range { min: Some(isize::MIN), max: Some(isize::MAX) }, ClaimValidator::Range { min: Some(7), max: Some(-5) },
        ClaimValidator::AnyOne(vec![HashedClaim::from("abc").into(), NumberClaim::from(7).into(), HashedClaim::from(vec![0xffu8, b'1', b'2', b'3']).into()]),
        ClaimValidator::AnyOne(vec![]),
        // members that differ from plausible claims only in a field that is not the "raw value"
        ClaimValidator::AnyOne(vec![EnumerationClaim { dst: "colour".into(), value: 1, total_values: 3 }.into(), HashedClaim::from("abc").into()]),
    ];
    let hashed: Vec<Vec<u8>> = vec![b"".to_vec(), b"abc".to_vec(), b"12".to_vec(), b"123".to_vec(), "é".as_bytes().to_vec(), b"a".to_vec(), vec![0xff, 0xfe], vec![0xff, b'1', b'2', b'3'], vec![b'a', b'b', 0xff], vec![b'a', 0xc3],
        vec![0xc3, 0x28], vec![0xed, 0xa0, 0x80], vec![0xff], vec![b'1', b'2', 0x80, b'3']];
    let mut values: Vec<(ClaimType, ClaimData)> = hashed.into_iter().map(|h| (ClaimType::Hashed, HashedClaim::from(h).into())).collect();
    for n in [isize::MIN, -6, -5, 0, 7, 8, isize::MAX] {
        values.push((ClaimType::Number, NumberClaim::from(n).into()));
    }
    values.push((ClaimType::Scalar, ScalarClaim::from(Scalar::from(7u64)).into()));
    values.push((ClaimType::Enumeration, EnumerationClaim { dst: "e".into(), value: 1, total_values: 3 }.into()));
    values.push((ClaimType::Enumeration, EnumerationClaim { dst: "colour".into(), value: 1, total_values: 3 }.into()));
    values.push((ClaimType::Enumeration, EnumerationClaim { dst: "shape".into(), value: 1, total_values: 3 }.into()));
    values.push((ClaimType::Enumeration, EnumerationClaim { dst: "colour".into(), value: 1, total_values: 200 }.into()));
    {
        let mut h = HashedClaim::from("abc");
        h.print_friendly = !h.print_friendly;
        values.push((ClaimType::Hashed, h.into()));
    }
    let mut n = 0usize;
    for (vi, v) in validators.iter().enumerate() {
        for (t, val) in &values {
            n += 1;
            if !em.thorough() && !matches!(v, ClaimValidator::Regex(_)) && n % 2 == 0 {
                continue;
            }
            let schema_claims = vec![
                ClaimSchema { claim_type: ClaimType::Revocation, label: "id".into(), print_friendly: false, validators: vec![] },
                ClaimSchema { claim_type: *t, label: "x".into(), print_friendly: false, validators: vec![v.clone()] },
            ];
            let cs = match CredentialSchema::new(Some("c15g"), None, &[], &schema_claims) {
                Ok(s) => s,
                Err(_) => continue,
            };
            let (_p, mut issuer) = Issuer::<S>::new(&cs);
            let claims: Vec<ClaimData> = vec![RevocationClaim::from(format!("g{}", n).as_str()).into(), val.clone()];
            em.count(&format!("grid:{}", match v { ClaimValidator::Regex(_) => "regex", ClaimValidator::Length { .. } => "length", ClaimValidator::Range { .. } => "range", ClaimValidator::AnyOne(_) => "anyone" }));
            eval_case(em, suite, 100_000 + vi, &cs, &schema_claims, &mut issuer, &[], &claims);
        }
    }
    // validators on the revocation claim itself × identifiers whose character count, byte length and
    // grapheme count differ (lengths are byte lengths, as for hashed claims and as in the signed encoding)
    let rev_validators: Vec<ClaimValidator> = vec![
        ClaimValidator::Length { min: Some(2), max: Some(3) }, ClaimValidator::Length { min: Some(3), max: None }, ClaimValidator::Length { min: None, max: Some(2) },
        ClaimValidator::Length { min: None, max: Some(4) }, ClaimValidator::Length { min: Some(5), max: Some(16) }, ClaimValidator::Length { min: Some(8), max: None },
        ClaimValidator::Length { min: None, max: Some(0) }, ClaimValidator::Length { min: None, max: None },
        rx("^.{1,4}$"), rx("^..$"), rx("é"), rx("^[a-c]+$"), rx("(?s)^.*$"), rx("^$"),
        ClaimValidator::Range { min: Some(-5), max: Some(7) },
        ClaimValidator::AnyOne(vec![RevocationClaim::from("éé").into(), HashedClaim::from("ab").into()]),
    ];
    let rev_values = ["ab", "abc", "abcd", "é", "éé", "ééé", "éééééé", "日本", "日本語", "e\u{301}", "1234", "éééééééé-0000001", "abcdefghijklmnopq", "a", "\u{1F600}"];
    for (vi, v) in rev_validators.iter().enumerate() {
        for val in rev_values.iter() {
            let schema_claims = vec![
                ClaimSchema { claim_type: ClaimType::Revocation, label: "id".into(), print_friendly: false, validators: vec![v.clone()] },
                ClaimSchema { claim_type: ClaimType::Number, label: "x".into(), print_friendly: false, validators: vec![] },
            ];
            let cs = match CredentialSchema::new(Some("c15r"), None, &[], &schema_claims) {
                Ok(s) => s,
                Err(_) => continue,
            };
            let (_p, mut issuer) = Issuer::<S>::new(&cs);
            let claims: Vec<ClaimData> = vec![RevocationClaim::from(*val).into(), NumberClaim::from(3).into()];
            em.count("grid:revocation-claim-validator");
            eval_case(em, suite, 200_000 + vi, &cs, &schema_claims, &mut issuer, &[], &claims);
        }
    }
}

fn run_suite<S: ShortGroupSignatureScheme>(em: &mut Emitter, rng: &mut Rng, suite: &str) {
    grid::<S>(em, suite);
    let types = [ClaimType::Hashed, ClaimType::Number, ClaimType::Scalar, ClaimType::Revocation, ClaimType::Enumeration];
    for k in 0..em.n(120, 1500) {
        // schema: 1..5 claims, a revocation claim at a random position (sometimes none / two)
        let n = 1 + rng.below(5) as usize;
        let mut schema_claims: Vec<ClaimSchema> = vec![];
        let rev_pos = rng.below(n as u64) as usize;
        for i in 0..n {
            let t = if i == rev_pos && !rng.chance(1, 12) { ClaimType::Revocation } else { *rng.pick(&types) };
            let nv = if rng.chance(1, 2) { 0 } else { 1 + rng.below(2) as usize };
            let mut validators: Vec<ClaimValidator> = vec![];
            for _ in 0..nv {
                // mostly validators that apply to the type, sometimes ones that do not
                let v = loop {
                    let v = rand_validator(rng);
                    let applies = matches!((&v, t), (ClaimValidator::Length { .. }, ClaimType::Hashed | ClaimType::Revocation) | (ClaimValidator::Range { .. }, ClaimType::Number) | (ClaimValidator::Regex(_), ClaimType::Hashed | ClaimType::Revocation) | (ClaimValidator::AnyOne(_), _));
                    if applies || rng.chance(1, 6) {
                        break v;
                    }
                };
                validators.push(v);
            }
            schema_claims.push(ClaimSchema { claim_type: t, label: format!("c{}", i), print_friendly: false, validators });
        }
        // half of the schemas go through the constructor, the others are decoded from their wire form
        // (public fields + serde: an issuer can hold a schema `new` never saw, e.g. with two revocation claims)
        let cs = match (if k % 2 == 0 { CredentialSchema::new(Some("c15"), None, &[], &schema_claims).ok() } else { None }) {
            Some(s) => s,
            None => {
                let mut stand_in = schema_claims.clone();
                let mut seen = false;
                for c in stand_in.iter_mut() {
                    if c.claim_type == ClaimType::Revocation {
                        if seen {
                            c.claim_type = ClaimType::Hashed;
                        }
                        seen = true;
                    }
                }
                if !seen {
                    stand_in[0].claim_type = ClaimType::Revocation;
                }
                let base = match CredentialSchema::new(Some("c15"), None, &[], &stand_in) {
                    Ok(b) => b,
                    Err(_) => continue,
                };
                let mut v = serde_json::to_value(&base).unwrap();
                let want = serde_json::to_value(&schema_claims).unwrap();
                for i in 0..schema_claims.len() {
                    v["claims"][i]["claim_type"] = want[i]["claim_type"].clone();
                }
                match serde_json::from_str::<CredentialSchema>(&serde_json::to_string(&v).unwrap()) {
                    Ok(s) => {
                        em.count("schema:decoded-from-wire");
                        s
                    }
                    Err(_) => continue,
                }
            }
        };
        let (_public, mut issuer) = Issuer::<S>::new(&cs);
        // revoke "rev-2" so that one identifier is known-revoked
        let mut revoked: Vec<String> = vec![];
        if schema_claims.iter().filter(|c| c.claim_type == ClaimType::Revocation).count() == 1 && rng.chance(1, 2) {
            let vecr: Vec<ClaimData> = schema_claims.iter().map(|c| if c.claim_type == ClaimType::Revocation { RevocationClaim::from("rev-2").into() } else { rand_claim(rng, c.claim_type) }).collect();
            // find a conformant filler by trying a few times
            for _ in 0..30 {
                let filler: Vec<ClaimData> = schema_claims.iter().zip(&vecr).map(|(c, v)| if c.claim_type == ClaimType::Revocation { v.clone() } else { rand_claim(rng, c.claim_type) }).collect();
                // an older identifier first, so that "rev-2" is the newest active one when both are revoked in one batch
                let older: Vec<ClaimData> = filler.iter().map(|c| if matches!(c, ClaimData::Revocation(_)) { RevocationClaim::from("rev-0-older").into() } else { c.clone() }).collect();
                let batch = rng.coin() && issuer.sign_credential(&older).is_ok();
                if issuer.sign_credential(&filler).is_ok() {
                    let ids: Vec<RevocationClaim> = if batch { vec![RevocationClaim::from("rev-0-older"), RevocationClaim::from("rev-2")] } else { vec![RevocationClaim::from("rev-2")] };
                    if issuer.revoke_credentials(&ids).is_ok() {
                        revoked.push("rev-2".into());
                        if batch {
                            revoked.push("rev-0-older".into());
                        }
                    }
                    break;
                }
            }
        }
        for _ in 0..em.n(14, 40) {
            // vectors: mostly the schema's shape with per-position perturbations
            let mut claims: Vec<ClaimData> = schema_claims.iter().map(|c| rand_claim(rng, c.claim_type)).collect();
            match rng.below(10) {
                0 => {
                    claims.pop();
                }
                1 => {
                    let t = *rng.pick(&types);
                    claims.push(rand_claim(rng, t));
                }
                2 => {
                    let i = rng.below(claims.len().max(1) as u64) as usize;
                    if i < claims.len() {
                        let t = *rng.pick(&types);
                        claims[i] = rand_claim(rng, t);
                    }
                }
                3 => {
                    let i = rng.below(claims.len().max(1) as u64) as usize;
                    if i < claims.len() {
                        claims[i] = RevocationClaim::from("rev-1").into();
                    }
                }
                _ => {}
            }
            eval_case(em, suite, k, &cs, &schema_claims, &mut issuer, &revoked, &claims);
        }
        if k < 2 {
            em.sample(json!({"suite": suite, "schema": serde_json::to_value(&cs).unwrap_or_default()}));
        }
    }
}

/// schemas as wide as the library can key (and around block sizes): a conformant vector is signed and the returned
/// signature covers every claim — the last ones included
fn wide_schemas<S: ShortGroupSignatureScheme>(em: &mut Emitter, rng: &mut Rng, suite: &str) {
    use credx::credential::{ClaimSchema, CredentialSchema};
    use credx::issuer::Issuer;
    let ns: Vec<usize> = if em.thorough() { vec![32, 33, 64, 65, 126, 127, 128] } else { vec![65, 127, 128] };
    for n in ns {
        let types = [ClaimType::Hashed, ClaimType::Number, ClaimType::Scalar, ClaimType::Enumeration];
        let mut cs = vec![ClaimSchema { claim_type: ClaimType::Revocation, label: "c0".into(), print_friendly: false, validators: vec![] }];
        for i in 1..n {
            cs.push(ClaimSchema { claim_type: types[i % 4], label: format!("c{}", i), print_friendly: types[i % 4] == ClaimType::Hashed, validators: vec![] });
        }
        let schema = match CredentialSchema::new(Some("wide"), None, &[], &cs) {
            Ok(s) => s,
            Err(_) => continue,
        };
        em.oracle_case(&format!("{} wide-schema {}", suite, n));
        let made = call_total(|| Issuer::<S>::new(&schema));
        let (_public, mut issuer) = match made {
            Out::Ok(x) => x,
            o => {
                em.count(&format!("wide-schema-{}:issuer-{}", n, o.class()));
                continue;
            }
        };
        let mut claims: Vec<ClaimData> = vec![RevocationClaim::from(format!("wide-{}-{}", n, rng.below(1 << 20))).into()];
        for i in 1..n {
            claims.push(match types[i % 4] {
                ClaimType::Hashed => HashedClaim::from(format!("text {}", i)).into(),
                ClaimType::Number => NumberClaim::from(i as isize * 7 - 100).into(),
                ClaimType::Scalar => ScalarClaim::from(rng.scalar()).into(),
                _ => EnumerationClaim { dst: format!("c{}", i), value: (i % 5) as u8, total_values: 5 }.into(),
            });
        }
        em.count(&format!("wide-schema:{}", n));
        match call(|| issuer.sign_credential(&claims)) {
            Out::Ok(b) => {
                let msgs: Vec<Scalar> = claims.iter().map(|c| c.to_scalar()).collect();
                if b.credential.signature.verify(&b.issuer.verifying_key, &msgs).is_err() {
                    em.violation("c15:returned-signature-invalid", format!("{}: the signature returned for a conformant vector over a {}-claim schema does not verify on the claims' encodings", suite, n), json!({"suite": suite, "n": n}));
                }
                for i in [n - 1, n - 2, n / 2] {
                    let mut m2 = msgs.clone();
                    m2[i] += Scalar::ONE;
                    if b.credential.signature.verify(&b.issuer.verifying_key, &m2).is_ok() {
                        em.violation("c15:returned-signature-does-not-cover-claim", format!("{}: the signature over a {}-claim credential still verifies with claim {} changed", suite, n, i), json!({"suite": suite, "n": n, "claim": i}));
                    }
                }
            }
            o => em.violation("c15:conformant-refused", format!("{}: a conformant vector over a {}-claim schema was not signed ({})", suite, n, o.class()), json!({"suite": suite, "n": n})),
        }
    }
}

pub fn gen_c15(em: &mut Emitter, rng: &mut Rng) {
    em.rule = "random credential schemas (1..5 claims of all five types, 0..2 validators of all four kinds incl. extreme bounds, regexes, any-of lists and \
               validators attached to types they do not apply to, 0/1/2 revocation positions) × claim vectors (schema-shaped with boundary values, non-UTF-8 \
               bytes, wrong length, wrong type / extra revocation claim at a random position, revoked identifier): sign_credential's verdict vs the Lean \
               acceptance function and vs an independently written conformance predicate; returned credentials must verify (signature, handle); schemas of 65 / 127 / 128 claims (the widest the library keys): signed, signature covers the last claims".into();
    run_suite::<credx::knox::bbs::BbsScheme>(em, rng, "bbs");
    run_suite::<credx::knox::ps::PsScheme>(em, rng, "ps");
    wide_schemas::<credx::knox::bbs::BbsScheme>(em, &mut rng.sub(1515), "bbs");
    wide_schemas::<credx::knox::ps::PsScheme>(em, &mut rng.sub(1516), "ps");
}
