//! Presentation-level toolkit: scenario generator (issuers, credentials, statement graphs),
//! honest prover / verifier drivers, JSON crafting helpers, challenge extraction from the merlin log.
#![allow(dead_code)]
use crate::common::*;
use credx::claim::*;
use credx::credential::{ClaimSchema, Credential, CredentialBundle, CredentialSchema};
use credx::issuer::{Issuer, IssuerPublic};
use credx::knox::short_group_sig_core::short_group_traits::ShortGroupSignatureScheme;
use credx::prelude::{
    MembershipClaim, MembershipCredential, MembershipRegistry, MembershipSigningKey, MembershipStatement, MembershipVerificationKey,
    VerifiableEncryptionDecryptionStatement,
};
use credx::presentation::{Presentation, PresentationCredential, PresentationSchema};
use credx::statement::*;
use indexmap::IndexMap;
use serde_json::Value;
use std::collections::BTreeSet;

pub const LABELS: [&str; 6] = ["id", "name", "age", "ssn", "level", "city"];

pub fn cred_schema(n_claims: usize, blindable: &[&str]) -> CredentialSchema {
    let all = vec![
        ClaimSchema { claim_type: ClaimType::Revocation, label: "id".into(), print_friendly: false, validators: vec![] },
        ClaimSchema { claim_type: ClaimType::Hashed, label: "name".into(), print_friendly: true, validators: vec![ClaimValidator::Length { min: Some(1), max: Some(64) }] },
        ClaimSchema { claim_type: ClaimType::Number, label: "age".into(), print_friendly: true, validators: vec![] },
        ClaimSchema { claim_type: ClaimType::Scalar, label: "ssn".into(), print_friendly: false, validators: vec![] },
        ClaimSchema { claim_type: ClaimType::Enumeration, label: "level".into(), print_friendly: false, validators: vec![] },
        ClaimSchema { claim_type: ClaimType::Hashed, label: "city".into(), print_friendly: true, validators: vec![] },
    ];
    CredentialSchema::new(Some("verif"), Some("verif credential"), blindable, &all[..n_claims]).unwrap()
}

pub fn claim_vector(rng: &mut Rng, n_claims: usize, id: &str, name: &str, age: i64) -> Vec<ClaimData> {
    let ssn = format!("{:09}", rng.below(1_000_000_000));
    let all: Vec<ClaimData> = vec![
        RevocationClaim::from(id).into(),
        HashedClaim::from(name).into(),
        NumberClaim::from(age as isize).into(),
        ScalarClaim::encode_str(&ssn).unwrap().into(),
        EnumerationClaim { dst: "level".into(), value: rng.below(3) as u8, total_values: 3 }.into(),
        HashedClaim::from(*rng.pick(&["Paris", "Oslo", "Lima"])).into(),
    ];
    all[..n_claims].to_vec()
}

/// What a scenario contains (decided by the generator, recorded for the evidence).
#[derive(Clone, Debug, Default)]
pub struct Mix {
    pub n_creds: usize,
    pub n_claims: usize,
    /// disclosed labels per credential
    pub disclosed: Vec<Vec<String>>,
    pub revocation: bool,
    pub membership: bool,
    /// commitment on claim index (of credential 0)
    pub commitment: Option<usize>,
    /// range bounds on `age` (needs commitment on 2)
    pub range: Option<(Option<i64>, Option<i64>)>,
    /// verifiable encryption (claim, allow scalar decryption)
    pub verenc: Option<(usize, bool)>,
    /// encrypt-and-decrypt statement on claim
    pub ved: Option<usize>,
    /// equality of `name` across all credentials
    pub equality: bool,
    pub age: i64,
    pub shuffle: bool,
    /// the scalar claim `ssn` of every credential is the zero scalar (the value whose message term vanishes)
    pub zero_ssn: bool,
    /// every credential is issued by the first issuer (several signature statements carry the same issuer data)
    pub same_issuer: bool,
}

impl Mix {
    pub fn describe(&self) -> String {
        format!(
            "creds={} claims={} disclosed={:?} rev={} mem={} com={:?} range={:?} verenc={:?} ved={:?} eq={} age={} shuffled={}{}",
            self.n_creds, self.n_claims, self.disclosed, self.revocation, self.membership, self.commitment, self.range, self.verenc, self.ved, self.equality, self.age, self.shuffle,
            if self.zero_ssn { " ssn=0" } else if self.same_issuer { " same-issuer" } else { "" }
        )
    }
    pub fn random(rng: &mut Rng, heavy: bool) -> Mix {
        let n_creds = 1 + rng.below(3) as usize;
        let n_claims = 3 + rng.below(4) as usize;
        let mut m = Mix { n_creds, n_claims, age: rng.range(-50, 120), ..Default::default() };
        m.revocation = rng.chance(1, 2);
        m.membership = rng.chance(1, 4);
        m.equality = n_creds > 1 && rng.chance(1, 2);
        if rng.chance(1, 2) {
            m.commitment = Some(2);
            if rng.chance(2, 3) {
                let lo = if rng.chance(2, 3) { Some(m.age - rng.range(0, 40)) } else { None };
                let hi = if lo.is_none() || rng.coin() { Some(m.age + rng.range(0, 40)) } else { None };
                m.range = Some((lo, hi));
            }
        } else if rng.chance(1, 4) {
            m.commitment = Some(1 + rng.below(n_claims as u64 - 1) as usize);
        }
        if heavy && rng.chance(1, 3) {
            m.verenc = Some((rng.below(n_claims as u64) as usize, rng.chance(1, 3)));
        } else if rng.chance(1, 3) {
            m.verenc = Some((rng.below(n_claims as u64) as usize, false));
        }
        if heavy && rng.chance(1, 5) {
            m.ved = Some(rng.below(n_claims as u64) as usize);
        }
        m.shuffle = rng.chance(1, 3);
        m.same_issuer = n_creds > 1 && rng.chance(1, 3);
        // disclosure: any claim not used by a predicate of credential 0 / equality
        for c in 0..n_creds {
            let mut used: BTreeSet<usize> = BTreeSet::new();
            if c == 0 {
                if m.revocation {
                    used.insert(0);
                }
                if m.membership {
                    used.insert(1);
                }
                if let Some(i) = m.commitment {
                    used.insert(i);
                }
                if let Some((i, _)) = m.verenc {
                    used.insert(i);
                }
                if let Some(i) = m.ved {
                    used.insert(i);
                }
            }
            if m.equality {
                used.insert(1);
            }
            let mut d = vec![];
            for i in 0..n_claims {
                if !used.contains(&i) && rng.chance(1, 2) {
                    d.push(LABELS[i].to_string());
                }
            }
            m.disclosed.push(d);
        }
        m
    }
}

pub struct Scn<S: ShortGroupSignatureScheme> {
    pub mix: Mix,
    pub issuers: Vec<Issuer<S>>,
    pub publics: Vec<IssuerPublic<S>>,
    pub bundles: Vec<CredentialBundle<S>>,
    pub sig_ids: Vec<String>,
    pub schema: PresentationSchema<S>,
    pub credentials: IndexMap<String, PresentationCredential<S>>,
    pub nonce: Vec<u8>,
    pub stmt_ids: Vec<(String, String)>,
}

pub fn g1_from_dl(k: Scalar) -> G1Projective {
    G1Projective::GENERATOR * k
}

impl<S: ShortGroupSignatureScheme> Scn<S> {
    /// Build a scenario: `n_creds` issuers (own keys), one credential each, statements per `mix`.
    pub fn build(rng: &mut Rng, mix: &Mix) -> Scn<S> {
        let mut issuers: Vec<Issuer<S>> = vec![];
        let mut publics: Vec<credx::issuer::IssuerPublic<S>> = vec![];
        let mut bundles = vec![];
        let mut sig_ids = vec![];
        let shared_name = "Alice Example";
        for c in 0..mix.n_creds {
            let schema = cred_schema(mix.n_claims, &[]);
            let (_p, mut issuer) = if mix.same_issuer && c > 0 { (publics[0].clone(), issuers[0].clone()) } else { Issuer::<S>::new(&schema) };
            let name = if mix.equality || c == 0 { shared_name.to_string() } else { format!("Holder {}", c) };
            let cid = format!("cred-{}-{}", c, rng.below(1 << 30));
            let age = if c == 0 { mix.age } else { rng.range(-10, 90) };
            let mut claims = claim_vector(rng, mix.n_claims, &cid, &name, age);
            if mix.zero_ssn && mix.n_claims > 3 {
                claims[3] = ScalarClaim::from(Scalar::ZERO).into();
            }
            // a second credential so that the registry has history
            let bundle = issuer.sign_credential(&claims).expect("sign");
            publics.push(bundle.issuer.clone());
            bundles.push(bundle);
            if mix.same_issuer && c > 0 {
                // one issuer object: keep its registry bookkeeping in every copy
                for i in issuers.iter_mut() {
                    *i = issuer.clone();
                }
            }
            issuers.push(issuer);
            sig_ids.push(format!("sig{}", c));
        }
        let mut stmts: Vec<Statements<S>> = vec![];
        let mut stmt_ids: Vec<(String, String)> = vec![];
        let mut credentials: IndexMap<String, PresentationCredential<S>> = IndexMap::new();
        for c in 0..mix.n_creds {
            let st = SignatureStatement { disclosed: mix.disclosed[c].iter().cloned().collect(), id: sig_ids[c].clone(), issuer: publics[c].clone() };
            stmt_ids.push((st.id.clone(), "signature".into()));
            stmts.push(st.into());
            credentials.insert(sig_ids[c].clone(), bundles[c].credential.clone().into());
        }
        let sid = sig_ids[0].clone();
        if mix.revocation {
            let st = RevocationStatement { id: "rev0".into(), reference_id: sid.clone(), accumulator: publics[0].revocation_registry, verification_key: publics[0].revocation_verifying_key, claim: 0 };
            stmt_ids.push((st.id.clone(), "revocation".into()));
            stmts.push(st.into());
        }
        if mix.membership {
            let sk = MembershipSigningKey::new(Some(&rng.bytes(16)));
            let vk = MembershipVerificationKey::from(&sk);
            let registry = MembershipRegistry::random(rng.chacha());
            let mc = MembershipCredential::new(MembershipClaim::from(&bundles[0].credential.claims[1]).0, registry, &sk);
            let st = MembershipStatement { id: "mem0".into(), reference_id: sid.clone(), accumulator: registry, verification_key: vk, claim: 1 };
            credentials.insert(st.id.clone(), mc.into());
            stmt_ids.push((st.id.clone(), "membership".into()));
            stmts.push(st.into());
        }
        if mix.equality {
            let mut m = IndexMap::new();
            for c in 0..mix.n_creds {
                m.insert(sig_ids[c].clone(), 1usize);
            }
            let st = EqualityStatement { id: "eq0".into(), ref_id_claim_index: m };
            stmt_ids.push((st.id.clone(), "equality".into()));
            stmts.push(st.into());
        }
        if let Some(ci) = mix.commitment {
            let st = CommitmentStatement { id: "com0".into(), reference_id: sid.clone(), message_generator: g1_from_dl(rng.scalar()), blinder_generator: g1_from_dl(rng.scalar()), claim: ci };
            stmt_ids.push((st.id.clone(), "commitment".into()));
            stmts.push(st.into());
            if let Some((lo, hi)) = mix.range {
                let st = RangeStatement { id: "rng0".into(), reference_id: "com0".into(), signature_id: sid.clone(), claim: ci, lower: lo.map(|x| x as isize), upper: hi.map(|x| x as isize) };
                stmt_ids.push((st.id.clone(), "range".into()));
                stmts.push(st.into());
            }
        }
        if let Some((ci, allow)) = mix.verenc {
            let st = VerifiableEncryptionStatement { message_generator: G1Projective::GENERATOR, encryption_key: publics[0].verifiable_encryption_key, id: "ve0".into(), reference_id: sid.clone(), claim: ci, allow_message_decryption: allow };
            stmt_ids.push((st.id.clone(), "verenc".into()));
            stmts.push(st.into());
        }
        if let Some(ci) = mix.ved {
            let st = VerifiableEncryptionDecryptionStatement { message_generator: G1Projective::GENERATOR, encryption_key: publics[0].verifiable_encryption_key, id: "ved0".into(), reference_id: sid.clone(), claim: ci };
            stmt_ids.push((st.id.clone(), "ved".into()));
            stmts.push(st.into());
        }
        if mix.shuffle {
            // keep it well formed: any order of statements is allowed by the API
            rng.shuffle(&mut stmts);
        }
        let schema = PresentationSchema::new_with_id(&stmts, &format!("schema-{}", rng.below(1 << 20)));
        let nlen = *rng.pick(&[0usize, 1, 16, 32]);
        let nonce = rng.bytes(nlen);
        Scn { mix: mix.clone(), issuers, publics, bundles, sig_ids, schema, credentials, nonce, stmt_ids }
    }

    /// one credential whose schema has the identifier claim at position `pos` (not first): signature statement disclosing
    /// `name`, revocation statement on `pos`
    pub fn with_revocation_at(rng: &mut Rng, pos: usize) -> Option<Scn<S>> {
        let mut cs = vec![
            ClaimSchema { claim_type: ClaimType::Hashed, label: "name".into(), print_friendly: true, validators: vec![] },
            ClaimSchema { claim_type: ClaimType::Number, label: "age".into(), print_friendly: true, validators: vec![] },
            ClaimSchema { claim_type: ClaimType::Scalar, label: "ssn".into(), print_friendly: false, validators: vec![] },
        ];
        let pos = pos.min(cs.len());
        cs.insert(pos, ClaimSchema { claim_type: ClaimType::Revocation, label: "id".into(), print_friendly: false, validators: vec![] });
        let schema = CredentialSchema::new(Some("pos"), Some("identifier not first"), &[], &cs).ok()?;
        let (_p, mut issuer) = Issuer::<S>::new(&schema);
        let mut claims: Vec<ClaimData> = vec![HashedClaim::from("Pos Holder").into(), NumberClaim::from(rng.range(0, 90) as isize).into(), ScalarClaim::from(rng.scalar()).into()];
        claims.insert(pos, RevocationClaim::from(format!("pos-{}", rng.below(1 << 30))).into());
        let bundle = issuer.sign_credential(&claims).ok()?;
        let sig = SignatureStatement { disclosed: ["name".to_string()].into_iter().collect(), id: "sig0".to_string(), issuer: bundle.issuer.clone() };
        let rev = RevocationStatement { id: "rev0".into(), reference_id: "sig0".into(), accumulator: bundle.issuer.revocation_registry, verification_key: bundle.issuer.revocation_verifying_key, claim: pos };
        let stmts: Vec<Statements<S>> = vec![sig.into(), rev.into()];
        let pschema = PresentationSchema::new_with_id(&stmts, &format!("schema-{}", rng.below(1 << 20)));
        let mut credentials: IndexMap<String, PresentationCredential<S>> = IndexMap::new();
        credentials.insert("sig0".into(), bundle.credential.clone().into());
        let mix = Mix { n_creds: 1, n_claims: 4, revocation: true, disclosed: vec![vec!["name".into()]], ..Default::default() };
        Some(Scn { mix, publics: vec![bundle.issuer.clone()], issuers: vec![issuer], bundles: vec![bundle], sig_ids: vec!["sig0".into()], schema: pschema, credentials, nonce: rng.bytes(16), stmt_ids: vec![("sig0".into(), "signature".into()), ("rev0".into(), "revocation".into())] })
    }

    /// a second commitment statement `com1` next to `com0`: same blinder generator, on claim `claim` of credential 0,
    /// with `com0`'s message generator or a fresh one
    pub fn add_second_commitment(&mut self, rng: &mut Rng, claim: usize, same_message_generator: bool) {
        let c0 = match self.schema.statements.get("com0") {
            Some(Statements::Commitment(c)) => c.clone(),
            _ => return,
        };
        let st = CommitmentStatement {
            id: "com1".into(),
            reference_id: c0.reference_id.clone(),
            message_generator: if same_message_generator { c0.message_generator } else { g1_from_dl(rng.scalar()) },
            blinder_generator: c0.blinder_generator,
            claim,
        };
        let mut stmts: Vec<Statements<S>> = self.schema.statements.values().cloned().collect();
        stmts.push(st.into());
        self.stmt_ids.push(("com1".into(), "commitment".into()));
        self.schema = PresentationSchema::new_with_id(&stmts, &self.schema.id);
    }

    pub fn create(&self) -> Out<Presentation<S>> {
        call(|| Presentation::create(&self.credentials, &self.schema, &self.nonce))
    }

    pub fn verify(&self, p: &Presentation<S>) -> Out<()> {
        call(|| p.verify(&self.schema, &self.nonce))
    }

    pub fn replay(&self, extra: Value) -> Value {
        serde_json::json!({
            "mix": self.mix.describe(),
            "nonce": hexs(&self.nonce),
            "schema": serde_json::to_value(&self.schema).unwrap_or(Value::Null),
            "credentials": self.credentials.iter().map(|(k, v)| (k.clone(), serde_json::to_value(v).unwrap_or(Value::Null))).collect::<serde_json::Map<String, Value>>(),
            "extra": extra,
        })
    }
}

/// Run `verify` with transcript logging on and return (verdict, the challenge the verifier computed).
pub fn verify_logged<S: ShortGroupSignatureScheme>(p: &Presentation<S>, schema: &PresentationSchema<S>, nonce: &[u8]) -> (Out<()>, Option<Scalar>, Vec<merlin::vlog::Entry>) {
    merlin::vlog::take();
    merlin::vlog::enable(true);
    let r = call(|| p.verify(schema, nonce));
    merlin::vlog::enable(false);
    let log = merlin::vlog::take();
    let main_tid = log.iter().find(|e| e.kind == 2 && e.label == b"credx presentation").map(|e| e.tid);
    let ch = log
        .iter()
        .rev()
        .find(|e| e.kind == 1 && Some(e.tid) == main_tid && e.label == b"challenge bytes")
        .and_then(|e| <[u8; 64]>::try_from(e.data.as_slice()).ok())
        .map(|b| Scalar::from_bytes_wide(&b));
    (r, ch, log)
}

/// Parse a presentation from JSON *text* (from_value fails on curve types).
pub fn pres_from_value<S: ShortGroupSignatureScheme>(v: &Value) -> Out<Presentation<S>> {
    let text = serde_json::to_string(v).unwrap();
    call(|| serde_json::from_str::<Presentation<S>>(&text))
}

pub fn schema_from_value<S: ShortGroupSignatureScheme>(v: &Value) -> Out<PresentationSchema<S>> {
    let text = serde_json::to_string(v).unwrap();
    call(|| serde_json::from_str::<PresentationSchema<S>>(&text))
}

/// All leaf paths of a JSON value (arrays and objects descended).
pub fn leaves(v: &Value, path: &mut Vec<String>, out: &mut Vec<(Vec<String>, Value)>) {
    match v {
        Value::Object(m) => {
            for (k, x) in m {
                path.push(k.clone());
                leaves(x, path, out);
                path.pop();
            }
        }
        Value::Array(a) => {
            for (i, x) in a.iter().enumerate() {
                path.push(i.to_string());
                leaves(x, path, out);
                path.pop();
            }
        }
        _ => out.push((path.clone(), v.clone())),
    }
}

pub fn get_mut<'a>(v: &'a mut Value, path: &[String]) -> Option<&'a mut Value> {
    let mut cur = v;
    for p in path {
        cur = match cur {
            Value::Object(m) => m.get_mut(p)?,
            Value::Array(a) => a.get_mut(p.parse::<usize>().ok()?)?,
            _ => return None,
        };
    }
    Some(cur)
}

#[derive(Clone, Copy, PartialEq, Eq, Debug)]
pub enum LeafKind {
    Scalar,
    G1,
    G2,
    Other,
}

pub fn leaf_kind(v: &Value) -> LeafKind {
    if let Value::String(s) = v {
        let hexy = s.chars().all(|c| c.is_ascii_hexdigit());
        if hexy && s.len() == 64 {
            return LeafKind::Scalar;
        }
        if hexy && s.len() == 96 {
            return LeafKind::G1;
        }
        if hexy && s.len() == 192 {
            return LeafKind::G2;
        }
    }
    LeafKind::Other
}

pub fn g1_hex_c(p: &G1Projective) -> String {
    hex::encode(p.to_compressed())
}
pub fn g2_hex_c(p: &G2Projective) -> String {
    hex::encode(p.to_compressed())
}
pub fn g1_of_hex(h: &str) -> Option<G1Projective> {
    let b: [u8; 48] = hex::decode(h).ok()?.try_into().ok()?;
    Option::<G1Affine>::from(G1Affine::from_compressed(&b)).map(G1Projective::from)
}
pub fn g2_of_hex(h: &str) -> Option<G2Projective> {
    let b: [u8; 96] = hex::decode(h).ok()?.try_into().ok()?;
    Option::<G2Affine>::from(G2Affine::from_compressed(&b)).map(G2Projective::from)
}

pub fn both_suites<F: FnMut(&str)>(mut f: F) {
    f("bbs");
    f("ps");
}

pub type Bbs = credx::knox::bbs::BbsScheme;
pub type Ps = credx::knox::ps::PsScheme;

pub fn cred_of<S: ShortGroupSignatureScheme>(b: &CredentialBundle<S>) -> Credential<S> {
    b.credential.clone()
}

/// opaque, never-empty token for an identifier or label
pub fn hx(s: &str) -> String {
    format!("x{}", hex::encode(s.as_bytes()))
}

fn claim_type_name(t: credx::claim::ClaimType) -> &'static str {
    use credx::claim::ClaimType;
    match t {
        ClaimType::Hashed => "hashed",
        ClaimType::Number => "number",
        ClaimType::Scalar => "scalar",
        ClaimType::Revocation => "revocation",
        ClaimType::Enumeration => "enumeration",
        ClaimType::Unknown => "unknown",
    }
}

/// structural description of (schema, presentation) for the model's plan stage (`vf.plan`)
pub fn plan_line<S: ShortGroupSignatureScheme>(schema: &PresentationSchema<S>, q: &Presentation<S>, suite: &str) -> String {
    let j = |v: Vec<String>, sep: &str| if v.is_empty() { "-".to_string() } else { v.join(sep) };
    let mut stmts = vec![];
    for (_key, st) in &schema.statements {
        let refs = |r: Vec<(String, usize)>| j(r.into_iter().map(|(a, b)| format!("{}:{}", hx(&a), b)).collect(), ",");
        let t = match st {
            Statements::Signature(ss) => format!(
                "S/{}/{}/{}/{}/{}",
                hx(&ss.id),
                ss.issuer.schema.claims.len(),
                j(ss.disclosed.iter().map(|l| hx(l)).collect(), ","),
                j(ss.issuer.schema.claim_indices.iter().map(|l| hx(l)).collect(), ","),
                j(ss.issuer.schema.claims.iter().map(|c| claim_type_name(c.claim_type).to_string()).collect(), ",")
            ),
            Statements::Equality(e) => format!("P/equality/{}/{}", hx(&e.id), refs(e.ref_id_claim_index.iter().map(|(a, b)| (a.clone(), *b)).collect())),
            Statements::Revocation(x) => format!("P/revocation/{}/{}", hx(&x.id), refs(vec![(x.reference_id.clone(), x.claim)])),
            Statements::Commitment(x) => format!("P/commitment/{}/{}", hx(&x.id), refs(vec![(x.reference_id.clone(), x.claim)])),
            Statements::VerifiableEncryption(x) => format!("P/verenc/{}/{}", hx(&x.id), refs(vec![(x.reference_id.clone(), x.claim)])),
            Statements::VerifiableEncryptionDecryption(x) => format!("P/ved/{}/{}", hx(&x.id), refs(vec![(x.reference_id.clone(), x.claim)])),
            Statements::Membership(x) => format!("P/membership/{}/{}", hx(&x.id), refs(vec![(x.reference_id.clone(), x.claim)])),
            Statements::Range(x) => format!("P/range/{}/{}", hx(&x.id), refs(vec![(x.reference_id.clone(), x.claim)])),
        };
        stmts.push(t);
    }
    let mut proofs = vec![];
    for (key, pr) in &q.proofs {
        use credx::presentation::PresentationProofs as PP;
        let (kind, inner, plen) = match pr {
            PP::Signature(sp) => {
                let v = serde_json::to_value(pr).unwrap_or(Value::Null);
                let plen = v["Signature"]["pok"]["proof"].as_array().map(|a| a.len()).unwrap_or(0);
                ("signature", j(sp.disclosed_messages.iter().map(|(i, s)| format!("{}:{}", i, sc_hex(s))).collect(), ","), plen)
            }
            PP::Revocation(_) => ("revocation", "-".to_string(), 0),
            PP::Equality(_) => ("equality", "-".to_string(), 0),
            PP::Commitment(_) => ("commitment", "-".to_string(), 0),
            PP::VerifiableEncryption(_) => ("verenc", "-".to_string(), 0),
            PP::Range(_) => ("range", "-".to_string(), 0),
            PP::Membership(_) => ("membership", "-".to_string(), 0),
            PP::VerifiableEncryptionDecryption(_) => ("ved", "-".to_string(), 0),
        };
        proofs.push(format!("{}/{}/{}/{}/{}", hx(key), kind, hx(pr.id()), inner, plen));
    }
    let mut disclosed = vec![];
    for (id, dm) in &q.disclosed_messages {
        disclosed.push(format!("{}/{}", hx(id), j(dm.iter().map(|(l, c)| format!("{}~{}~{}", hx(l), crate::claims::claim_str(c), sc_hex(&c.to_scalar()))).collect(), ",")));
    }
    format!("vf.plan {} {} {} {}", if suite == "bbs" { 0 } else { 2 }, j(stmts, ";"), j(proofs, ";"), j(disclosed, ";"))
}

/// class of the real verifier's run: did it get past the plan stage (i.e. compute the challenge)?
pub fn plan_class<S: ShortGroupSignatureScheme>(q: &Presentation<S>, schema: &PresentationSchema<S>, nonce: &[u8]) -> (&'static str, Out<()>) {
    let (r, ch, _) = verify_logged(q, schema, nonce);
    if r.is_panic() {
        return ("panic", r);
    }
    (if ch.is_some() { "plan-ok" } else { "plan-err" }, r)
}

/// structural description of (credentials, schema) for the model of `Presentation::create` (`cr.ok`);
/// `None` when a statement is stored under a key that differs from its own id (the model has one id)
pub fn create_line<S: ShortGroupSignatureScheme>(credentials: &IndexMap<String, PresentationCredential<S>>, schema: &PresentationSchema<S>) -> Option<String> {
    let j = |v: Vec<String>, sep: &str| if v.is_empty() { "-".to_string() } else { v.join(sep) };
    let mut creds = vec![];
    for (k, c) in credentials {
        match c {
            PresentationCredential::Signature(cred) => {
                let cs: Vec<String> = cred
                    .claims
                    .iter()
                    .map(|c| format!("{}:{}", sc_hex(&c.to_scalar()), if let ClaimData::Number(n) = c { n.value.to_string() } else { "-".to_string() }))
                    .collect();
                creds.push(format!("{}/S/{}", hx(k), j(cs, ",")));
            }
            PresentationCredential::Membership(_) => creds.push(format!("{}/M", hx(k))),
        }
    }
    let oi = |o: Option<isize>| o.map(|x| x.to_string()).unwrap_or("-".to_string());
    let mut stmts = vec![];
    for (key, st) in &schema.statements {
        if *key != st.id() {
            return None;
        }
        let t = match st {
            Statements::Signature(ss) => {
                let kv = serde_json::to_value(&ss.issuer.verifying_key).unwrap_or(Value::Null);
                let n_key = kv["y"].as_array().map(|a| a.len()).unwrap_or(0);
                format!(
                    "S/{}/{}/{}/{}",
                    hx(&ss.id),
                    j(ss.disclosed.iter().map(|l| hx(l)).collect(), ","),
                    j(ss.issuer.schema.claim_indices.iter().map(|l| hx(l)).collect(), ","),
                    n_key
                )
            }
            Statements::Equality(e) => format!("E/{}/{}", hx(&e.id), j(e.ref_id_claim_index.iter().map(|(a, b)| format!("{}:{}", hx(a), b)).collect(), ",")),
            Statements::Revocation(x) => format!("X/revocation/{}/{}/{}", hx(&x.id), hx(&x.reference_id), x.claim),
            Statements::Commitment(x) => format!("X/commitment/{}/{}/{}", hx(&x.id), hx(&x.reference_id), x.claim),
            Statements::VerifiableEncryption(x) => format!("X/verenc/{}/{}/{}", hx(&x.id), hx(&x.reference_id), x.claim),
            Statements::VerifiableEncryptionDecryption(x) => format!("X/ved/{}/{}/{}", hx(&x.id), hx(&x.reference_id), x.claim),
            Statements::Membership(x) => format!("X/membership/{}/{}/{}", hx(&x.id), hx(&x.reference_id), x.claim),
            Statements::Range(x) => format!("R/{}/{}/{}/{}/{}/{}", hx(&x.id), hx(&x.reference_id), hx(&x.signature_id), x.claim, oi(x.lower), oi(x.upper)),
        };
        stmts.push(t);
    }
    Some(format!("cr.ok {} {}", j(creds, ";"), j(stmts, ";")))
}

/// `cr.proofs`: the model's account of which proofs `create` emits (order of the `IndexMap`, variant, and for
/// signature proofs the number of messages and the revealed indices) vs. the presentation the real code made;
/// `n` of a real signature proof = revealed + (responses − 2) for both suites
pub fn create_proofs_line<S: ShortGroupSignatureScheme>(credentials: &IndexMap<String, PresentationCredential<S>>, schema: &PresentationSchema<S>, made: Option<&Presentation<S>>) -> Option<(String, String)> {
    let line = create_line(credentials, schema)?.replacen("cr.ok", "cr.proofs", 1);
    let q = match made {
        None => return Some((line, "err".to_string())),
        Some(q) => q,
    };
    let mut out = vec![];
    for (key, pr) in &q.proofs {
        use credx::presentation::PresentationProofs as PP;
        let (kind, n, rv) = match pr {
            PP::Signature(sp) => {
                let v = serde_json::to_value(pr).unwrap_or(Value::Null);
                let plen = v["Signature"]["pok"]["proof"].as_array().map(|a| a.len()).unwrap_or(0);
                let mut r: Vec<usize> = sp.disclosed_messages.keys().cloned().collect();
                r.sort();
                ("signature", (plen + r.len()).saturating_sub(2), r)
            }
            PP::Revocation(_) => ("revocation", 0, vec![]),
            PP::Equality(_) => ("equality", 0, vec![]),
            PP::Commitment(_) => ("commitment", 0, vec![]),
            PP::VerifiableEncryption(_) => ("verenc", 0, vec![]),
            PP::Range(_) => ("range", 0, vec![]),
            PP::Membership(_) => ("membership", 0, vec![]),
            PP::VerifiableEncryptionDecryption(_) => ("ved", 0, vec![]),
        };
        if key != pr.id() {
            out.push(format!("{}!={}", hx(key), hx(pr.id())));
        }
        let rv = if rv.is_empty() { "-".to_string() } else { rv.iter().map(|i| i.to_string()).collect::<Vec<_>>().join(",") };
        out.push(format!("{}/{}/{}/{}", hx(key), kind, n, rv));
    }
    // the reported `disclosed_messages`: statement id → labels, both in the object's own order
    let mut dis = vec![];
    for (id, dm) in &q.disclosed_messages {
        let ls: Vec<String> = dm.keys().map(|l| hx(l)).collect();
        dis.push(format!("{}/{}", hx(id), if ls.is_empty() { "-".to_string() } else { ls.join(",") }));
    }
    Some((line, format!("{} D {}", if out.is_empty() { "-".to_string() } else { out.join(";") }, if dis.is_empty() { "-".to_string() } else { dis.join(";") })))
}

/// `tr.markers`: the order of the statement-id markers (`append_message(b"", id)`) in the main transcript of a fresh
/// `create` run and of the verifier's run on `q`, vs. the model's `createMarkers` / `verifyMarkers`
pub fn markers_line<S: ShortGroupSignatureScheme>(credentials: &IndexMap<String, PresentationCredential<S>>, schema: &PresentationSchema<S>, nonce: &[u8], q: &Presentation<S>) -> Option<(String, String)> {
    let line = create_line(credentials, schema)?.replacen("cr.ok", "tr.markers", 1);
    merlin::vlog::take();
    merlin::vlog::enable(true);
    let _ = call(|| Presentation::create(credentials, schema, nonce));
    merlin::vlog::enable(false);
    let plog = merlin::vlog::take();
    let (_, _, vlog) = verify_logged(q, schema, nonce);
    let marks = |log: &[merlin::vlog::Entry]| -> String {
        let v: Vec<String> = crate::adv::main_items(log).iter().filter(|(l, _)| l.is_empty()).map(|(_, d)| hx(&String::from_utf8_lossy(d))).collect();
        if v.is_empty() { "-".to_string() } else { v.join(",") }
    };
    Some((line, format!("P:{} V:{}", marks(&plog), marks(&vlog))))
}

/// model lines for the predicate verifiers that share a response with the signature proof (commitment,
/// verifiable encryption): the recomputed commitments the real verifier hashed for `q` vs. the model's
/// `commitmentRecommit` / `elgamalRecommit` fed with the model's own sorted lookup of the linked response
pub fn recommit_lines<S: ShortGroupSignatureScheme>(em: &mut Emitter, suite: &str, schema: &PresentationSchema<S>, q: &Presentation<S>, nonce: &[u8]) {
    let (_, _, log) = verify_logged(q, schema, nonce);
    let items = crate::adv::main_items(&log);
    let v = serde_json::to_value(q).unwrap_or(Value::Null);
    let off = if suite == "bbs" { 0 } else { 2 };
    let j = |v: Vec<String>| if v.is_empty() { "-".to_string() } else { v.join(",") };
    // the items hashed right after the ("" = statement id) marker of statement `id`
    let after = |id: &str, label: &[u8]| -> Option<String> {
        let start = items.iter().position(|(l, d)| l.is_empty() && d == id.as_bytes())?;
        items[start + 1..].iter().take_while(|(l, _)| !l.is_empty()).find(|(l, _)| l == label).map(|(_, d)| hexs(d))
    };
    let sig_part = |reference_id: &str| -> Option<(usize, String, String)> {
        let n = match schema.statements.get(reference_id)? {
            Statements::Signature(ss) => ss.issuer.schema.claims.len(),
            _ => return None,
        };
        let sp = &v["proofs"][reference_id]["Signature"];
        let rvl: Vec<String> = sp["disclosed_messages"].as_object()?.keys().cloned().collect();
        let proof: Vec<String> = sp["pok"]["proof"].as_array()?.iter().map(|x| x.as_str().unwrap_or("").to_string()).collect();
        Some((n, j(rvl), j(proof)))
    };
    for st in schema.statements.values() {
        match st {
            Statements::Commitment(x) => {
                let pr = &v["proofs"][&x.id]["Commitment"];
                // the items hashed for this statement: the commitment itself (the statement of the Σ-protocol) and the recomputed value
                let lab = |l: &[u8]| after(&x.id, l).unwrap_or_else(|| "not-hashed".to_string());
                if let (Some((n, rvl, proof)), Some(_), Some(cc), Some(sb)) = (sig_part(&x.reference_id), after(&x.id, b"blind commitment"), pr["commitment"].as_str(), pr["blinder_proof"].as_str()) {
                    em.op(
                        format!("cm.recommit {} {} {} {} {} {} {} {} {} {}", n, off, rvl, proof, x.claim, sc_hex(&q.challenge), sb, g1_hex_c(&x.message_generator), g1_hex_c(&x.blinder_generator), cc),
                        format!("commitment={} blind_commitment={}", lab(b"commitment"), lab(b"blind commitment")),
                    );
                }
            }
            Statements::VerifiableEncryption(x) => {
                let pr = &v["proofs"][&x.id]["VerifiableEncryption"];
                let lab = |l: &[u8]| after(&x.id, l).unwrap_or_else(|| "not-hashed".to_string());
                if let (Some((n, rvl, proof)), Some(_), Some(_), Some(c1), Some(c2), Some(sb)) =
                    (sig_part(&x.reference_id), after(&x.id, b"r1"), after(&x.id, b"r2"), pr["c1"].as_str(), pr["c2"].as_str(), pr["blinder_proof"].as_str())
                {
                    em.op(
                        format!(
                            "eg.recommit {} {} {} {} {} {} {} {} {} {} {} {}",
                            n, off, rvl, proof, x.claim, sc_hex(&q.challenge), sb, g1_hex_c(&G1Projective::GENERATOR), g1_hex_c(&x.message_generator), g1_hex_c(&x.encryption_key.0), c1, c2
                        ),
                        format!("c1={} c2={} r1={} r2={}", lab(b"c1"), lab(b"c2"), lab(b"r1"), lab(b"r2")),
                    );
                }
            }
            _ => {}
        }
    }
}
