//! C18 (claim encodings) and the claim-codec part of C20 (totality).
use crate::common::*;
use credx::claim::*;
use serde_json::json;
use std::collections::HashMap;

pub fn claim_str(c: &ClaimData) -> String {
    match c {
        ClaimData::Hashed(h) => format!("H:{}:{}", hexs(&h.value), if h.print_friendly { 1 } else { 0 }),
        ClaimData::Number(n) => format!("N:{}", n.value),
        ClaimData::Scalar(s) => format!("S:{}", sc_hex(&s.value)),
        ClaimData::Revocation(r) => format!("R:{}", hexs(r.value.as_bytes())),
        ClaimData::Enumeration(e) => format!("E:{}:{}:{}", hexs(e.dst.as_bytes()), e.value, e.total_values),
    }
}

fn type_str(t: ClaimType) -> &'static str {
    match t {
        ClaimType::Hashed => "hashed",
        ClaimType::Number => "number",
        ClaimType::Scalar => "scalar",
        ClaimType::Revocation => "revocation",
        ClaimType::Enumeration => "enumeration",
        ClaimType::Unknown => "unknown",
    }
}

pub fn int_lattice(rng: &mut Rng, thorough: bool) -> Vec<i64> {
    let mut v: Vec<i64> = vec![];
    for base in [i64::MIN, -(1i64 << 32), -65536, -256, 0, 256, 65536, 1i64 << 32, i64::MAX] {
        for d in -3i64..=3 {
            if let Some(x) = base.checked_add(d) {
                v.push(x);
            }
        }
    }
    // every 16-bit pattern (thorough) or a sample (quick), replicated across the four lanes
    let step = if thorough { 1 } else { 257 };
    let mut p: u32 = 0;
    while p < 65536 {
        let q = p as u64;
        for lanes in [0b0001u8, 0b0010, 0b0100, 0b1000, 0b1111, 0b1001] {
            let mut x = 0u64;
            for l in 0..4 {
                if lanes >> l & 1 == 1 {
                    x |= q << (16 * l);
                }
            }
            v.push(x as i64);
        }
        p += step;
    }
    for _ in 0..(if thorough { 20000 } else { 1500 }) {
        let x = rng.next() as i64;
        v.push(x >> rng.below(64));
    }
    v
}

fn rand_utf8(rng: &mut Rng, max_chars: usize) -> String {
    let n = rng.below(max_chars as u64 + 1) as usize;
    let alphabet = ['a', 'Z', '0', ':', ' ', 'é', 'ß', '€', '漢', '😀', '\u{0}', '\u{7f}', '\u{80}', '\u{7ff}', '\u{800}', '\u{ffff}', '\u{10000}', '\u{10ffff}'];
    (0..n).map(|_| *rng.pick(&alphabet)).collect()
}

fn byte_strings(rng: &mut Rng, thorough: bool) -> Vec<Vec<u8>> {
    let mut v: Vec<Vec<u8>> = vec![vec![]];
    for a in 0..=255u8 {
        v.push(vec![a]);
    }
    let step = if thorough { 1 } else { 61 };
    let mut i: u32 = 0;
    while i < 65536 {
        v.push(vec![(i >> 8) as u8, i as u8]);
        i += step;
    }
    for len in 0..=40usize {
        for _ in 0..(if thorough { 200 } else { 12 }) {
            v.push(rng.bytes(len));
        }
        // leading / trailing zeros and 0xff
        let mut z = vec![0u8; len];
        v.push(z.clone());
        if len > 0 {
            z[len - 1] = 1;
            v.push(z.clone());
            z[0] = 0xff;
            v.push(z);
            v.push(vec![0xff; len]);
        }
    }
    v
}

pub fn gen_c18(em: &mut Emitter, rng: &mut Rng) {
    em.rule = "M1 value-by-value comparison of the claim codecs with the Lean model (one op per line) plus \
               oracle checks on the real code (round trips, order, injectivity); a case is non-trivial/distinct \
               by its op line / oracle key (FNV of the text)".into();
    let thorough = em.thorough();
    // ---- integers
    let ints = int_lattice(rng, thorough);
    let mut enc: Vec<(i64, u64)> = vec![];
    for &v in &ints {
        let c = NumberClaim::from(v as isize);
        let s = c.to_scalar();
        em.op(format!("num2s {}", v), sc_hex(&s));
        let back = NumberClaim::from(s);
        em.op(format!("s2num {}", sc_hex(&s)), format!("{}", back.value));
        em.oracle_case(&format!("num-rt {}", v));
        if back.value as i64 != v {
            em.violation("number-roundtrip", format!("NumberClaim::from(to_scalar({})) = {}", v, back.value), json!({"v": v}));
        }
        let be = s.to_be_bytes();
        if be[..24].iter().any(|b| *b != 0) {
            em.violation("number-not-64bit", format!("to_scalar({}) does not fit 64 bits", v), json!({"v": v}));
        }
        let mut low = [0u8; 8];
        low.copy_from_slice(&be[24..]);
        enc.push((v, u64::from_be_bytes(low)));
    }
    // order preservation + injectivity over the whole sample
    enc.sort();
    enc.dedup();
    for w in enc.windows(2) {
        em.oracle_case(&format!("num-mono {} {}", w[0].0, w[1].0));
        if !(w[0].1 < w[1].1) {
            em.violation("number-order", format!("{} < {} but enc {} !< {}", w[0].0, w[1].0, w[0].1, w[1].1), json!({"a": w[0].0, "b": w[1].0}));
        }
    }
    // arbitrary scalars into the number decoder
    for _ in 0..em.n(300, 5000) {
        let s = rng.scalar();
        let back = NumberClaim::from(s);
        em.op(format!("s2num {}", sc_hex(&s)), format!("{}", back.value));
    }
    // ---- scalar packing
    let bss = byte_strings(rng, thorough);
    let mut packed: HashMap<[u8; 32], Vec<u8>> = HashMap::new();
    for b in &bss {
        let e = call(|| ScalarClaim::encode_bytes(b));
        em.op(format!("encb {}", hexs(b)), e.show(|c| sc_hex(&c.value)));
        em.oracle_case(&format!("pack {}", hexs(b)));
        match e {
            Out::Ok(c) => {
                if b.len() > 31 {
                    em.violation("pack-accepts-long", "encode_bytes accepted more than 31 bytes", json!({"bytes": hexs(b)}));
                }
                let d = call(|| c.decode_to_bytes());
                em.op(format!("decb {}", sc_hex(&c.value)), d.show(|x| hexs(x)));
                match d {
                    Out::Ok(x) if &x == b => {}
                    Out::Ok(x) => em.violation("pack-bytes-roundtrip", format!("decode_to_bytes(encode_bytes({})) = {}", hexs(b), hexs(&x)), json!({"bytes": hexs(b)})),
                    Out::Err => em.violation("pack-bytes-roundtrip", format!("decode_to_bytes(encode_bytes({})) = Err", hexs(b)), json!({"bytes": hexs(b)})),
                    Out::Panic(m) => em.violation("pack-bytes-roundtrip-panic", format!("decode_to_bytes(encode_bytes({})) panicked: {}", hexs(b), m), json!({"bytes": hexs(b)})),
                }
                if let Some(prev) = packed.insert(c.value.to_be_bytes(), b.clone()) {
                    if &prev != b {
                        em.violation("pack-collision", format!("{} and {} pack to the same scalar", hexs(&prev), hexs(b)), json!({"a": hexs(&prev), "b": hexs(b)}));
                    }
                }
            }
            Out::Err => {
                if b.len() <= 31 {
                    em.violation("pack-rejects-short", "encode_bytes rejected <= 31 bytes", json!({"bytes": hexs(b)}));
                }
            }
            Out::Panic(m) => em.violation("pack-panic", format!("encode_bytes panicked: {}", m), json!({"bytes": hexs(b)})),
        }
    }
    for _ in 0..em.n(400, 6000) {
        let s = rand_utf8(rng, 12);
        let e = call(|| ScalarClaim::encode_str(&s));
        em.op(format!("encb {}", hexs(s.as_bytes())), e.show(|c| sc_hex(&c.value)));
        em.oracle_case(&format!("packstr {}", hexs(s.as_bytes())));
        if let Out::Ok(c) = e {
            let d = call(|| c.decode_to_str());
            em.op(format!("decs {}", sc_hex(&c.value)), d.show(|x| hexs(x.as_bytes())));
            match d {
                Out::Ok(x) if x == s => {}
                _ => em.violation("pack-str-roundtrip", format!("decode_to_str(encode_str({:?})) differs", s), json!({"str": s})),
            }
        } else if s.len() <= 31 {
            em.violation("pack-rejects-short", "encode_str rejected <= 31 bytes", json!({"str": s}));
        }
    }
    // ---- claim data: text, bytes, scalar encodings
    let mut claims: Vec<ClaimData> = vec![];
    for &v in ints.iter().step_by(if thorough { 7 } else { 23 }) {
        claims.push(NumberClaim::from(v as isize).into());
    }
    for b in bss.iter().step_by(if thorough { 5 } else { 9 }) {
        claims.push(HashedClaim::from(b.clone()).into());
        if let Ok(c) = ScalarClaim::encode_bytes(b) {
            claims.push(c.into());
        }
    }
    for _ in 0..em.n(200, 3000) {
        claims.push(HashedClaim::from(rand_utf8(rng, 10)).into());
        claims.push(ScalarClaim::from(rng.scalar()).into());
        claims.push(RevocationClaim::from(rand_utf8(rng, 10)).into());
        claims.push(RevocationClaim::from(hex::encode(rng.bytes(8))).into()); // 16 ASCII bytes
    }
    // texts that need escaping or look like another representation, in every string-carrying claim type
    for t in ["", "\"", "\\", "a\"b", "line 1\nline 2", "tab\there", "\u{0}", "\u{1f}", "\u{7f}", "é\"", "{\"k\":1}", "cafe", "00", " a ", "a\r\n", "\u{2028}"] {
        claims.push(HashedClaim::from(t).into());
        let mut h = HashedClaim::from(t.as_bytes().to_vec());
        h.print_friendly = false;
        claims.push(h.into());
        claims.push(RevocationClaim::from(t).into());
        if t.len() < 200 {
            claims.push(EnumerationClaim { dst: t.to_string(), value: 1, total_values: 3 }.into());
        }
    }
    // identifiers a lenient reader might identify: spellings of one UUID, case, padding, URL / path decorations
    for base in ["123e4567-e89b-12d3-a456-426614174000", "a1b2c3d4-0000-4000-8000-00000000abcd"] {
        let plain = base.replace('-', "");
        for t in [base.to_string(), base.to_uppercase(), plain.clone(), plain.to_uppercase(), format!("{{{}}}", base), format!("urn:uuid:{}", base), format!(" {}", base), format!("{} ", base), format!("{}\n", base), format!("0x{}", plain)] {
            claims.push(RevocationClaim::from(t.as_str()).into());
            claims.push(HashedClaim::from(t.as_str()).into());
        }
    }
    for t in ["alice", "Alice", "ALICE", "alice ", "alice/", "alice?", "alice#", "https://id.example/alice", "https://id.example/alice/", "HTTPS://ID.EXAMPLE/alice", "0", "00", "+0", "-0", "0.0", "1e0", "１"] {
        claims.push(RevocationClaim::from(t).into());
        claims.push(HashedClaim::from(t).into());
    }
    let totals: Vec<usize> = vec![0, 1, 2, 3, 255, 256, 65535, 65536, 65537, 65539, u32::MAX as usize, usize::MAX];
    for _ in 0..em.n(150, 2500) {
        let dst: String = if rng.chance(1, 8) {
            "x".repeat(rng.below(256) as usize)
        } else {
            rand_utf8(rng, 8)
        };
        if dst.len() >= 256 {
            continue;
        }
        let total = if rng.coin() { *rng.pick(&totals) } else { rng.below(70000) as usize };
        claims.push(EnumerationClaim { dst, value: rng.next() as u8, total_values: total }.into());
    }
    // pairs that differ in exactly one field (collision probes)
    for (a, b) in [(3usize, 65539usize), (0, 65536), (1, 1 + (1usize << 32))] {
        for v in [0u8, 7] {
            claims.push(EnumerationClaim { dst: "phone".into(), value: v, total_values: a }.into());
            claims.push(EnumerationClaim { dst: "phone".into(), value: v, total_values: b }.into());
        }
    }
    let mut by_scalar: HashMap<([u8; 32], u8), ClaimData> = HashMap::new();
    for c in &claims {
        let cs = claim_str(c);
        let ty = match c {
            ClaimData::Hashed(_) => ClaimType::Hashed,
            ClaimData::Number(_) => ClaimType::Number,
            ClaimData::Scalar(_) => ClaimType::Scalar,
            ClaimData::Revocation(_) => ClaimType::Revocation,
            ClaimData::Enumeration(_) => ClaimType::Enumeration,
        };
        // scalar encoding: deterministic, model pre-image
        let s1 = c.to_scalar();
        let s2 = c.clone().to_scalar();
        em.op(format!("prehash {}", cs), sc_hex(&s1));
        em.oracle_case(&format!("enc {}", cs));
        if s1 != s2 {
            em.violation("encoding-nondeterministic", cs.clone(), json!({"claim": cs}));
        }
        // within-type injectivity (value-level: print_friendly is not part of the value)
        let key = (s1.to_be_bytes(), ty as u8);
        if let Some(prev) = by_scalar.get(&key) {
            let same_value = match (prev, c) {
                (ClaimData::Hashed(a), ClaimData::Hashed(b)) => a.value == b.value,
                (a, b) => a == b,
            };
            if !same_value {
                let sig = match (prev, c) {
                    (ClaimData::Enumeration(a), ClaimData::Enumeration(b))
                        if a.dst == b.dst && a.value == b.value && (a.total_values as u16) == (b.total_values as u16) =>
                    {
                        "enum-total-truncated-u16"
                    }
                    _ => "encoding-collision",
                };
                em.violation(sig, format!("{} and {} encode to the same field element", claim_str(prev), cs), json!({"a": claim_str(prev), "b": cs}));
            }
        } else {
            by_scalar.insert(key, c.clone());
        }
        // text codec
        let t = call_total(|| c.to_text());
        em.op(format!("totext {}", cs), t.show(|x| hexs(x.as_bytes())));
        em.oracle_case(&format!("text {}", cs));
        match t {
            Out::Ok(text) => {
                let back = call(|| ClaimData::from_text(&text));
                em.op(format!("fromtext {}", hexs(text.as_bytes())), back.show(claim_str));
                match back {
                    Out::Ok(b) if &b == c => {}
                    Out::Ok(b) => em.violation("text-roundtrip", format!("from_text(to_text({})) = {}", cs, claim_str(&b)), json!({"claim": cs})),
                    Out::Err => em.violation("text-roundtrip", format!("from_text(to_text({})) = Err", cs), json!({"claim": cs})),
                    Out::Panic(m) => em.violation("text-roundtrip-panic", format!("from_text(to_text({})) panicked: {}", cs, m), json!({"claim": cs})),
                }
            }
            Out::Panic(m) => em.violation("to-text-panic", format!("to_text({}) panicked: {}", cs, m), json!({"claim": cs})),
            Out::Err => {}
        }
        // JSON form (the other textual representation): decodes back to the same claim
        em.oracle_case(&format!("json {}", cs));
        match call(|| serde_json::to_string(c)) {
            Out::Ok(js) => match call(|| serde_json::from_str::<ClaimData>(&js)) {
                Out::Ok(b) if claim_str(&b) == cs && b.to_scalar() == s1 => {}
                Out::Ok(b) => em.violation("json-roundtrip", format!("from_json(to_json({})) = {}", cs, claim_str(&b)), json!({"claim": cs, "json": js})),
                Out::Err => em.violation("json-roundtrip", format!("from_json(to_json({})) = Err", cs), json!({"claim": cs, "json": js})),
                Out::Panic(m) => em.violation("json-roundtrip-panic", format!("from_json(to_json({})) panicked: {}", cs, m), json!({"claim": cs, "json": js})),
            },
            Out::Panic(m) => em.violation("to-json-panic", format!("to_json({}) panicked: {}", cs, m), json!({"claim": cs})),
            Out::Err => em.violation("json-roundtrip", format!("to_json({}) = Err", cs), json!({"claim": cs})),
        }
        // byte codec
        let bytes = c.to_bytes();
        em.op(format!("tobytes {}", cs), hexs(&bytes));
        let back = call(|| ClaimData::from_bytes(ty, &bytes));
        em.op(format!("frombytes {} {}", type_str(ty), hexs(&bytes)), back.show(claim_str));
        em.oracle_case(&format!("bytes {}", cs));
        let sig = match (&back, c) {
            (Out::Ok(b), _) if b == c => None,
            (Out::Ok(ClaimData::Hashed(b)), ClaimData::Hashed(h)) if b.value == h.value => Some("bytes-roundtrip-print-friendly-lost"),
            (Out::Err, ClaimData::Enumeration(_)) => Some("bytes-roundtrip-enumeration-unsupported"),
            (Out::Err, ClaimData::Revocation(r)) if r.value.len() != 16 => Some("bytes-roundtrip-revocation-not-16-bytes"),
            (Out::Panic(_), _) => Some("bytes-roundtrip-panic"),
            _ => Some("bytes-roundtrip"),
        };
        if let Some(sig) = sig {
            em.violation(sig, format!("from_bytes(to_bytes({})) = {}", cs, back.show(claim_str)), json!({"claim": cs}));
        }
    }
}

/// C20, claim-codec part: arbitrary untrusted text / bytes / scalars never panic.
pub fn gen_c20_claims(em: &mut Emitter, rng: &mut Rng) {
    let thorough = em.thorough();
    // all strings of length 0..6 over a small alphabet (quick: up to 5)
    let alpha = ["a", ":", "0", "f", "é", "n", "u", "m", "s", "c", "l", "-"];
    let maxlen = if thorough { 5 } else { 4 };
    let mut strings: Vec<String> = vec![String::new()];
    let mut frontier = vec![String::new()];
    for _ in 0..maxlen {
        let mut next = vec![];
        for s in &frontier {
            for a in &alpha[..if thorough { 8 } else { 6 }] {
                let mut t = s.clone();
                t.push_str(a);
                next.push(t);
            }
        }
        strings.extend(next.iter().cloned());
        frontier = next;
    }
    // tag + mutated valid bodies
    for tag in ["hex:", "ut8:", "num:", "scl:", "rev:", "enm:", "xyz:", "scl", "num"] {
        for body in ["", "0", "00", "zz", "-", "+", "-0", "+5", "9223372036854775807", "9223372036854775808", "-9223372036854775808", "-9223372036854775809", "é", "0é",
            "0000000000000000000000000000000000000000000000000000000000000001",
            "73eda753299d7d483339d80809a1d80553bda402fffe5bfeffffffff00000001",
            "73eda753299d7d483339d80809a1d80553bda402fffe5bfeffffffff00000000",
            "000000000000000000000000000000000000000000000000000000000000000",
            "00000000000000000000000000000000000000000000000000000000000000zz",
            "0000000000000000000000000000000000000000000000000000000000000001ff",
            "000000000000000000000000000000000000000000000000000000000000000é",
            "0261620307000000000000000", "02616203070000000000000000", "ff", "80", "8000", "ffffffffffffffffffff01",
            "ffffffffffffffffff7f", "05616203"] {
            strings.push(format!("{}{}", tag, body));
        }
    }
    for _ in 0..em.n(500, 20000) {
        let tag = *rng.pick(&["hex:", "ut8:", "num:", "scl:", "rev:", "enm:"]);
        let n = rng.below(70) as usize;
        let body: String = (0..n).map(|_| *rng.pick(&['0', '1', '7', 'a', 'f', 'F', 'g', '-', 'é'])).collect();
        strings.push(format!("{}{}", tag, body));
    }
    for s in &strings {
        let r = call(|| ClaimData::from_text(s));
        em.op(format!("fromtext {}", hexs(s.as_bytes())), r.show(claim_str));
        em.oracle_case(&format!("fromtext {}", s));
        if let Out::Panic(m) = &r {
            let site = if s.len() < 4 || !s.is_char_boundary(4) { "from-text-slice" } else if s.starts_with("scl:") { "from-text-scalar-hex" } else { "from-text-other" };
            em.violation(&format!("panic:{}", site), format!("ClaimData::from_text({:?}) panicked: {}", s, m), json!({"text": s}));
        }
    }
    // from_bytes with arbitrary lengths
    for ty in [ClaimType::Hashed, ClaimType::Number, ClaimType::Scalar, ClaimType::Revocation, ClaimType::Enumeration] {
        for len in 0..=40usize {
            for k in 0..(if thorough { 20 } else { 3 }) {
                let mut b = rng.bytes(len);
                if k == 0 {
                    b = vec![0xff; len];
                }
                if k == 1 && ty == ClaimType::Revocation {
                    b = vec![b'a'; len];
                }
                let r = call(|| ClaimData::from_bytes(ty, &b));
                em.op(format!("frombytes {} {}", type_str(ty), hexs(&b)), r.show(claim_str));
                em.oracle_case(&format!("frombytes {} {}", type_str(ty), hexs(&b)));
                if let Out::Panic(m) = &r {
                    em.violation("panic:from-bytes", format!("ClaimData::from_bytes({}, {} bytes) panicked: {}", type_str(ty), len, m), json!({"type": type_str(ty), "bytes": hexs(&b)}));
                }
            }
        }
    }
    // scalar unpackers on arbitrary scalars
    let mut scalars: Vec<Scalar> = vec![];
    for top in 0..=0x73u8 {
        for second in [0u8, 1, 31, 32, 33, 0xff] {
            let mut b = [0u8; 32];
            b[0] = top;
            b[1] = second;
            b[31] = 0x61;
            if let Some(s) = Option::<Scalar>::from(Scalar::from_be_bytes(&b)) {
                scalars.push(s);
            }
        }
    }
    for _ in 0..em.n(300, 10000) {
        scalars.push(rng.scalar());
    }
    for s in &scalars {
        let d = call(|| ScalarClaim::from(*s).decode_to_bytes());
        em.op(format!("decb {}", sc_hex(s)), d.show(|x| hexs(x)));
        let e = call(|| ScalarClaim::from(*s).decode_to_str());
        em.op(format!("decs {}", sc_hex(s)), e.show(|x| hexs(x.as_bytes())));
        em.oracle_case(&format!("unpack {}", sc_hex(s)));
        if let Out::Panic(m) = &d {
            em.violation("panic:decode-to-bytes", format!("decode_to_bytes({}) panicked: {}", sc_hex(s), m), json!({"scalar": sc_hex(s)}));
        }
        if let Out::Panic(m) = &e {
            em.violation("panic:decode-to-str", format!("decode_to_str({}) panicked: {}", sc_hex(s), m), json!({"scalar": sc_hex(s)}));
        }
    }
    // to_text / serialisation of print-friendly hashed claims that are not UTF-8
    for b in [vec![0xffu8], vec![0xc0, 0x80], vec![0xed, 0xa0, 0x80], vec![b'a', 0x80]] {
        let c = ClaimData::Hashed(HashedClaim { value: b.clone(), print_friendly: true });
        // such an object only reaches the library through a binary decoder
        let bare = serde_bare::to_vec(&c).unwrap();
        let dec = call(|| serde_bare::from_slice::<ClaimData>(&bare));
        em.oracle_case(&format!("hashed-nonutf8 {}", hexs(&b)));
        if let Out::Ok(d) = dec {
            let t = call_total(|| d.to_text());
            if let Out::Panic(m) = &t {
                em.violation("panic:to-text-non-utf8", format!("to_text of a decoded print-friendly claim {} panicked: {}", hexs(&b), m), json!({"bare": hexs(&bare)}));
            }
            let j = call(|| serde_json::to_string(&d));
            if let Out::Panic(m) = &j {
                em.violation("panic:serialize-non-utf8", format!("JSON serialisation of a decoded print-friendly claim {} panicked: {}", hexs(&b), m), json!({"bare": hexs(&bare)}));
            }
        }
    }
}
