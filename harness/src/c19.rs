//! C19: wire formats round-trip every protocol object without changing its meaning.
use crate::common::*;
use crate::pres::*;
use credx::blind::BlindCredentialRequest;
use credx::claim::*;
use credx::credential::{ClaimSchema, CredentialSchema};
use credx::issuer::Issuer;
use credx::knox::short_group_sig_core::short_group_traits::*;
use credx::knox::{bbs, ps};
use serde::{de::DeserializeOwned, Serialize};
use serde_json::json;
use std::collections::BTreeMap;

/// encode → decode → re-encode in one serde format; `sparse` = the object skips optional fields
fn rt<T: Serialize + DeserializeOwned + std::fmt::Debug>(em: &mut Emitter, kind: &str, sparse: bool, x: &T) {
    // Debug forms are comparable only for types without curve points (projective coordinates are not canonical)
    let dbg_on = matches!(kind, "CredentialSchema" | "ClaimSchema" | "ClaimValidator" | "ClaimData");
    let dbg_x = if dbg_on { format!("{:?}", x) } else { String::new() };
    // JSON
    em.oracle_case(&format!("{} json {}", kind, em.oracle_evals));
    match call(|| serde_json::to_string(x)) {
        Out::Ok(a) => match call(|| serde_json::from_str::<T>(&a)) {
            Out::Ok(y) => {
                if call(|| serde_json::to_string(&y)).ok().as_ref() != Some(&a) {
                    em.violation(&format!("c19:reencode-differs:{}:json", kind), format!("{}: JSON decode(encode(x)) re-encodes differently", kind), json!({"kind": kind, "json": a}));
                }
                if dbg_on && format!("{:?}", y) != dbg_x {
                    em.violation(&format!("c19:object-changed:{}:json", kind), format!("{}: the object decoded from its own JSON form differs from the original (Debug forms differ)", kind), json!({"kind": kind, "json": a, "before": dbg_x.chars().take(600).collect::<String>(), "after": format!("{:?}", y).chars().take(600).collect::<String>()}));
                }
            }
            Out::Err => em.violation(&format!("c19:roundtrip:{}:json", kind), format!("{}: own JSON encoding does not decode", kind), json!({"kind": kind, "json": a})),
            Out::Panic(m) => em.violation(&format!("c19:decode-panic:{}:json", kind), format!("{}: JSON decoding panicked: {}", kind, m), json!({"kind": kind, "json": a})),
        },
        Out::Err => em.violation(&format!("c19:encode-failed:{}:json", kind), format!("{}: JSON encoding failed", kind), json!({"kind": kind})),
        Out::Panic(m) => em.violation(&format!("c19:encode-panic:{}:json", kind), format!("{}: JSON encoding panicked: {}", kind, m), json!({"kind": kind})),
    }
    // CBOR
    em.oracle_case(&format!("{} cbor {}", kind, em.oracle_evals));
    match call(|| serde_cbor::to_vec(x)) {
        Out::Ok(a) => match call(|| serde_cbor::from_slice::<T>(&a)) {
            Out::Ok(y) => {
                if call(|| serde_cbor::to_vec(&y)).ok().as_ref() != Some(&a) {
                    em.violation(&format!("c19:reencode-differs:{}:cbor", kind), format!("{}: CBOR decode(encode(x)) re-encodes differently", kind), json!({"kind": kind, "cbor": hexs(&a)}));
                }
                if dbg_on && format!("{:?}", y) != dbg_x {
                    em.violation(&format!("c19:object-changed:{}:cbor", kind), format!("{}: the object decoded from its own CBOR form differs from the original (Debug forms differ)", kind), json!({"kind": kind, "before": dbg_x.chars().take(600).collect::<String>(), "after": format!("{:?}", y).chars().take(600).collect::<String>()}));
                }
            }
            Out::Err => em.violation(&format!("c19:roundtrip:{}:cbor", kind), format!("{}: own CBOR encoding does not decode", kind), json!({"kind": kind, "cbor": hexs(&a)})),
            Out::Panic(m) => em.violation(&format!("c19:decode-panic:{}:cbor", kind), format!("{}: CBOR decoding panicked: {}", kind, m), json!({"kind": kind})),
        },
        _ => em.violation(&format!("c19:encode-failed:{}:cbor", kind), format!("{}: CBOR encoding failed", kind), json!({"kind": kind})),
    }
    // BARE
    em.oracle_case(&format!("{} bare {}", kind, em.oracle_evals));
    match call(|| serde_bare::to_vec(x)) {
        Out::Ok(a) => match call(|| serde_bare::from_slice::<T>(&a)) {
            Out::Ok(y) => {
                if call(|| serde_bare::to_vec(&y)).ok().as_ref() != Some(&a) {
                    em.violation(&format!("c19:reencode-differs:{}:bare", kind), format!("{}: BARE decode(encode(x)) re-encodes differently", kind), json!({"kind": kind, "bare": hexs(&a)}));
                }
                if dbg_on && format!("{:?}", y) != dbg_x {
                    em.violation(&format!("c19:object-changed:{}:bare", kind), format!("{}: the object decoded from its own BARE form differs from the original (Debug forms differ)", kind), json!({"kind": kind, "before": dbg_x.chars().take(600).collect::<String>(), "after": format!("{:?}", y).chars().take(600).collect::<String>()}));
                }
                em.count(&format!("bare:{}:{}:ok", kind, if sparse { "sparse" } else { "full" }));
            }
            Out::Err => {
                // a positional format cannot represent fields that the serialiser skipped
                let sig = if sparse { format!("c19:bare-skipped-optional:{}", kind) } else { format!("c19:roundtrip:{}:bare", kind) };
                em.violation(&sig, format!("{}: own BARE encoding does not decode ({} instance)", kind, if sparse { "with skipped optional fields" } else { "full" }), json!({"kind": kind, "bare": hexs(&a)}));
            }
            Out::Panic(m) => em.violation(&format!("c19:decode-panic:{}:bare", kind), format!("{}: BARE decoding panicked: {}", kind, m), json!({"kind": kind})),
        },
        _ => em.violation(&format!("c19:encode-failed:{}:bare", kind), format!("{}: BARE encoding failed", kind), json!({"kind": kind})),
    }
}

/// hand-written codec: from_bytes(to_bytes(x)) must give back an object with the same bytes
fn hand<T>(em: &mut Emitter, tag: &str, kind: &str, x: &T, to: impl Fn(&T) -> Vec<u8>, from: impl Fn(&[u8]) -> Option<T>) {
    em.oracle_case(&format!("{} hand {}", kind, em.oracle_evals));
    let a = to(x);
    match call_opt(|| from(&a)) {
        Out::Ok(y) => {
            if to(&y) != a {
                em.violation(&format!("{}:hand-codec-differs:{}", tag, kind), format!("{}: from_bytes(to_bytes(x)) re-encodes differently", kind), json!({"kind": kind, "bytes": hexs(&a)}));
            }
        }
        Out::Err => em.violation(&format!("{}:hand-codec-roundtrip:{}", tag, kind), format!("{}: from_bytes rejects the output of to_bytes", kind), json!({"kind": kind, "bytes": hexs(&a)})),
        Out::Panic(m) => em.violation(&format!("{}:hand-codec-panic:{}", tag, kind), format!("{}: from_bytes panicked on the output of to_bytes: {}", kind, m), json!({"kind": kind, "bytes": hexs(&a)})),
    }
    // truncations and extensions must not panic
    for cut in [1usize, 16, 32, 47] {
        if a.len() > cut {
            let b = &a[..a.len() - cut];
            if let Out::Panic(m) = call_opt(|| from(b)) {
                em.violation(&format!("{}:hand-codec-panic:{}", tag, kind), format!("{}: from_bytes panicked on a truncated encoding: {}", kind, m), json!({"kind": kind, "bytes": hexs(b)}));
            }
        }
    }
    // field slots overwritten with values outside the field / not on the curve: the three points and the lengths stay
    // valid, one aligned 32- or 48-byte window becomes ff…ff, the group order r (either byte order) or r + 1 — a decoder
    // that reaches the slot must answer None / Err, not unwind
    {
        let r_be: [u8; 32] = {
            let mut b = (-Scalar::ONE).to_be_bytes();
            // (r − 1) + 1, no carry beyond the last byte for BLS12-381's r
            b[31] = b[31].wrapping_add(1);
            b
        };
        let mut r_le = r_be;
        r_le.reverse();
        let mut r1_be = r_be;
        r1_be[31] = r1_be[31].wrapping_add(1);
        let pats: Vec<(&str, Vec<u8>)> = vec![("ff", vec![0xff; 32]), ("r-be", r_be.to_vec()), ("r-le", r_le.to_vec()), ("r+1-be", r1_be.to_vec()), ("ff48", vec![0xff; 48])];
        let mut offsets: Vec<usize> = vec![];
        for w in [32usize, 48] {
            let mut o = 0;
            while o + w <= a.len() && offsets.len() < 64 {
                offsets.push(o);
                o += w;
            }
            let mut k = 1;
            while k * w <= a.len() && k <= 8 {
                offsets.push(a.len() - k * w);
                k += 1;
            }
        }
        offsets.sort();
        offsets.dedup();
        for o in offsets {
            for (pn, pat) in &pats {
                if o + pat.len() > a.len() {
                    continue;
                }
                let mut b = a.clone();
                b[o..o + pat.len()].copy_from_slice(pat);
                em.oracle_evals += 1;
                if let Out::Panic(m) = call_opt(|| from(&b)) {
                    em.violation(&format!("{}:hand-codec-panic:{}", tag, kind), format!("{}: from_bytes panicked on an encoding whose bytes {}..{} are {} (out-of-field value in a valid frame): {}", kind, o, o + pat.len(), pn, m), json!({"kind": kind, "bytes": hexs(&b), "offset": o, "pattern": pn}));
                    break;
                }
            }
        }
    }
    let mut c = a.clone();
    c.extend_from_slice(&[0u8; 7]);
    if let Out::Panic(m) = call_opt(|| from(&c)) {
        em.violation(&format!("{}:hand-codec-panic:{}", tag, kind), format!("{}: from_bytes panicked on an extended encoding: {}", kind, m), json!({"kind": kind}));
    }
}

/// validators with bounds at zero and at the ends of their domains, alone and inside claim / credential schemas: the
/// decoded validator is the authored one (Debug form, hashed bytes) and judges a catalogue of claims the same way
fn validator_catalogue(em: &mut Emitter) {
    let vals: Vec<ClaimValidator> = vec![
        ClaimValidator::Length { min: Some(0), max: Some(0) },
        ClaimValidator::Length { min: Some(0), max: None },
        ClaimValidator::Length { min: None, max: Some(0) },
        ClaimValidator::Length { min: Some(0), max: Some(64) },
        ClaimValidator::Length { min: Some(1), max: Some(usize::MAX) },
        ClaimValidator::Range { min: Some(0), max: Some(0) },
        ClaimValidator::Range { min: Some(0), max: None },
        ClaimValidator::Range { min: None, max: Some(0) },
        ClaimValidator::Range { min: Some(isize::MIN), max: Some(isize::MAX) },
        ClaimValidator::Range { min: Some(-1), max: Some(1) },
        ClaimValidator::AnyOne(vec![]),
        ClaimValidator::AnyOne(vec![NumberClaim::from(0).into(), HashedClaim::from("").into()]),
    ];
    let probes: Vec<ClaimData> = vec![
        HashedClaim::from("").into(),
        HashedClaim::from("a").into(),
        HashedClaim::from("x".repeat(65)).into(),
        NumberClaim::from(0).into(),
        NumberClaim::from(1).into(),
        NumberClaim::from(-1).into(),
        NumberClaim::from(isize::MIN).into(),
        NumberClaim::from(isize::MAX).into(),
        RevocationClaim::from("").into(),
        ScalarClaim::from(Scalar::ZERO).into(),
    ];
    let hashed = |v: &ClaimValidator| -> Vec<u8> {
        merlin::vlog::take();
        merlin::vlog::enable(true);
        let mut t = merlin::Transcript::new(b"v");
        v.add_challenge_contribution(&mut t);
        merlin::vlog::enable(false);
        merlin::vlog::take().iter().filter(|e| e.kind == 0).flat_map(|e| [e.label.clone(), vec![0xff], e.data.clone(), vec![0xfe]].concat()).collect()
    };
    for v in &vals {
        let sparse = matches!(v, ClaimValidator::Length { min: None, .. } | ClaimValidator::Length { max: None, .. } | ClaimValidator::Range { min: None, .. } | ClaimValidator::Range { max: None, .. });
        rt(em, "ClaimValidator", sparse, v);
        let cs = ClaimSchema { claim_type: ClaimType::Hashed, label: "x".into(), print_friendly: true, validators: vec![v.clone()] };
        rt(em, "ClaimSchema", sparse, &cs);
        let backs: Vec<(&str, Option<ClaimValidator>)> = vec![
            ("json", serde_json::to_string(v).ok().and_then(|s| serde_json::from_str::<ClaimValidator>(&s).ok())),
            ("cbor", serde_cbor::to_vec(v).ok().and_then(|s| serde_cbor::from_slice::<ClaimValidator>(&s).ok())),
            ("bare", serde_bare::to_vec(v).ok().and_then(|s| serde_bare::from_slice::<ClaimValidator>(&s).ok())),
        ];
        for (fmt, back) in backs {
            em.oracle_case(&format!("validator {:?} {}", v, fmt));
            let w = match back {
                Some(w) => w,
                None => {
                    em.count(&format!("validator:{}:undecodable", fmt));
                    continue;
                }
            };
            for c in &probes {
                if v.is_valid(c) != w.is_valid(c) {
                    em.violation(&format!("c19:validator-verdict-changed:{}", fmt), format!("validator {:?} judges {} as {:?}, its {} round trip as {:?}", v, crate::claims::claim_str(c), v.is_valid(c), fmt, w.is_valid(c)), json!({"validator": format!("{:?}", v), "format": fmt}));
                    break;
                }
            }
            if hashed(v) != hashed(&w) {
                em.violation(&format!("c19:validator-hash-changed:{}", fmt), format!("validator {:?} binds other transcript bytes after a {} round trip", v, fmt), json!({"validator": format!("{:?}", v), "format": fmt}));
            }
        }
    }
}

fn hand_roundtrip_only<T>(em: &mut Emitter, tag: &str, kind: &str, x: &T, to: impl Fn(&T) -> Vec<u8>, from: impl Fn(&[u8]) -> Option<T>) {
    em.oracle_case(&format!("{} hand wide {}", kind, em.oracle_evals));
    let a = to(x);
    match call_opt(|| from(&a)) {
        Out::Ok(y) => {
            if to(&y) != a {
                em.violation(&format!("{}:hand-codec-differs:{}", tag, kind), format!("{}: from_bytes(to_bytes(x)) re-encodes differently ({} bytes)", kind, a.len()), json!({"kind": kind, "len": a.len()}));
            }
        }
        Out::Err => em.violation(&format!("{}:hand-codec-roundtrip:{}", tag, kind), format!("{}: from_bytes rejects the output of to_bytes ({} bytes)", kind, a.len()), json!({"kind": kind, "len": a.len()})),
        Out::Panic(m) => em.violation(&format!("{}:hand-codec-panic:{}", tag, kind), format!("{}: from_bytes panicked on the output of to_bytes: {}", kind, m), json!({"kind": kind, "len": a.len()})),
    }
}

fn schemas(rng: &mut Rng) -> Vec<(bool, CredentialSchema)> {
    let mut out = vec![];
    for sparse in [false, true] {
        let v = |full: ClaimValidator, sp: ClaimValidator| if sparse { sp } else { full };
        let claims = vec![
            ClaimSchema { claim_type: ClaimType::Revocation, label: "id".into(), print_friendly: false, validators: if sparse { vec![] } else { vec![ClaimValidator::Length { min: Some(1), max: Some(64) }] } },
            ClaimSchema { claim_type: ClaimType::Hashed, label: "name".into(), print_friendly: true, validators: vec![v(ClaimValidator::Length { min: Some(1), max: Some(9) }, ClaimValidator::Length { min: None, max: Some(9) }), ClaimValidator::regex_from_string("^[A-Za-z ]+$").unwrap()] },
            ClaimSchema { claim_type: ClaimType::Number, label: "age".into(), print_friendly: true, validators: vec![v(ClaimValidator::Range { min: Some(-5), max: Some(150) }, ClaimValidator::Range { min: Some(0), max: None })] },
            ClaimSchema { claim_type: ClaimType::Scalar, label: "ssn".into(), print_friendly: false, validators: if sparse { vec![] } else { vec![ClaimValidator::AnyOne(vec![ScalarClaim::encode_str("1").unwrap().into(), ScalarClaim::from(rng.scalar()).into()])] } },
            ClaimSchema { claim_type: ClaimType::Enumeration, label: "level".into(), print_friendly: false, validators: if sparse { vec![] } else { vec![ClaimValidator::AnyOne(vec![EnumerationClaim { dst: "level".into(), value: 1, total_values: 3 }.into(), HashedClaim::from(vec![1u8, 2, 255]).into(), HashedClaim::from("x").into(), NumberClaim::from(-3).into(), RevocationClaim::from("r").into()])] } },
        ];
        let cs = CredentialSchema::new(if sparse { None } else { Some("label") }, if sparse { None } else { Some("description") }, &["name", "age"], &claims).unwrap();
        out.push((sparse, cs));
    }
    out
}

fn suite_objects<S: ShortGroupSignatureScheme>(em: &mut Emitter, rng: &mut Rng, suite: &str) {
    for (sparse, cs) in schemas(rng) {
        rt(em, "CredentialSchema", sparse, &cs);
        let (public, mut issuer) = Issuer::<S>::new(&cs);
        rt(em, &format!("IssuerPublic<{}>", suite), sparse, &public);
        let claims: Vec<ClaimData> = vec![
            RevocationClaim::from("cred-1").into(),
            // print-friendly text that is also valid hex in the sparse variant
            HashedClaim::from(if sparse { "cafe" } else { "Alice" }).into(),
            NumberClaim::from(30).into(),
            if sparse { ScalarClaim::from(rng.scalar()).into() } else { ScalarClaim::encode_str("1").unwrap().into() },
            EnumerationClaim { dst: "level".into(), value: 1, total_values: 3 }.into(),
        ];
        for c in &claims {
            rt(em, "ClaimData", false, c);
        }
        rt(em, "ClaimData", false, &ClaimData::from(HashedClaim::from(vec![0u8, 255, 254])));
        // value catalogue: texts that look like another representation (hex, numbers, tags, white space)
        for t in ["", "cafe", "CAFE", "5551234567", "00", "DEADBEEF", "68656c6c6f", "0x10", " a", "a ", "é", "123", "-1", "hex:00", "ut8:a", "null", "\"", "\\", "a\nb", "\u{0}", "a\n", "\ta\t", "line 1\nline 2\n", " ", "\n", "a\r\n"] {
            for pf in [true, false] {
                let mut h = HashedClaim::from(t);
                h.print_friendly = pf;
                let c = ClaimData::from(h);
                rt(em, "ClaimData", false, &c);
                for (fmt, back) in [
                    ("json", serde_json::to_string(&c).ok().and_then(|s| serde_json::from_str::<ClaimData>(&s).ok())),
                    ("cbor", serde_cbor::to_vec(&c).ok().and_then(|s| serde_cbor::from_slice::<ClaimData>(&s).ok())),
                    ("bare", serde_bare::to_vec(&c).ok().and_then(|s| serde_bare::from_slice::<ClaimData>(&s).ok())),
                ] {
                    em.oracle_case(&format!("claim value {} {} {}", t, pf, fmt));
                    match back {
                        Some(b) if b == c && b.to_scalar() == c.to_scalar() => {}
                        Some(_) => em.violation(&format!("c19:claim-changed:{}", fmt), format!("a hashed claim with text {:?} (print_friendly {}) decodes from {} to a different claim", t, pf, fmt), json!({"text": t, "print_friendly": pf, "format": fmt})),
                        None => em.violation(&format!("c19:claim-undecodable:{}", fmt), format!("a hashed claim with text {:?} (print_friendly {}) does not decode from its own {} encoding", t, pf, fmt), json!({"text": t, "print_friendly": pf, "format": fmt})),
                    }
                }
            }
            rt(em, "ClaimData", false, &ClaimData::from(RevocationClaim::from(t)));
            // the text form (the form a claim travels in inside an encrypt-and-decrypt proof)
            for c in [ClaimData::from(RevocationClaim::from(t)), { let mut h = HashedClaim::from(t); h.print_friendly = true; h.into() }, { let mut h = HashedClaim::from(t); h.print_friendly = false; h.into() }] {
                em.oracle_case(&format!("claim text {:?} {}", t, crate::claims::claim_str(&c)));
                match call_total(|| c.to_text()) {
                    Out::Ok(txt) => match call(|| ClaimData::from_text(&txt)) {
                        Out::Ok(b) if b == c && b.to_scalar() == c.to_scalar() => {}
                        Out::Ok(_) => em.violation("c19:claim-changed:text", format!("a claim with text {:?} decodes from its text form {:?} to a different claim", t, txt), json!({"text": t, "form": txt})),
                        Out::Err => em.violation("c19:claim-undecodable:text", format!("a claim with text {:?} does not decode from its own text form {:?}", t, txt), json!({"text": t, "form": txt})),
                        Out::Panic(m) => em.violation("c19:decode-panic:ClaimData:text", format!("from_text panicked on {:?}: {}", txt, m), json!({"form": txt})),
                    },
                    _ => em.violation("c19:encode-panic:ClaimData:text", format!("to_text panicked for text {:?}", t), json!({"text": t})),
                }
            }
        }
        for n in [isize::MIN, -1, 0, 1, isize::MAX] {
            rt(em, "ClaimData", false, &ClaimData::from(NumberClaim::from(n)));
        }
        for sc in [Scalar::ZERO, Scalar::ONE, -Scalar::ONE] {
            rt(em, "ClaimData", false, &ClaimData::from(ScalarClaim::from(sc)));
        }
        let bundle = match issuer.sign_credential(&claims) {
            Ok(b) => b,
            Err(_) => {
                em.violation("c19:setup", format!("{}: could not issue the sample credential", suite), json!({}));
                continue;
            }
        };
        rt(em, &format!("CredentialBundle<{}>", suite), sparse, &bundle);
        rt(em, &format!("Credential<{}>", suite), false, &bundle.credential);
        rt(em, &format!("Signature<{}>", suite), false, &bundle.credential.signature);
        rt(em, "MembershipWitness", false, &bundle.credential.revocation_handle);
        rt(em, "Accumulator", false, &bundle.issuer.revocation_registry);
        rt(em, &format!("PublicKey<{}>", suite), false, &public.verifying_key);
        rt(em, &format!("SecretKey<{}>", suite), false, &issuer.signing_key);
        // the issuer's own state, after some history
        let _ = issuer.sign_credential(&{
            let mut c = claims.clone();
            c[0] = RevocationClaim::from("cred-2").into();
            c
        });
        let _ = issuer.revoke_credentials(&[RevocationClaim::from("cred-2")]);
        rt(em, &format!("Issuer<{}>", suite), sparse, &issuer);
        // verdicts survive: credential decoded from each format still verifies
        let msgs: Vec<Scalar> = claims.iter().map(|c| c.to_scalar()).collect();
        for (fmt, back) in [
            ("json", serde_json::to_string(&bundle.credential).ok().and_then(|s| serde_json::from_str::<credx::credential::Credential<S>>(&s).ok())),
            ("cbor", serde_cbor::to_vec(&bundle.credential).ok().and_then(|s| serde_cbor::from_slice::<credx::credential::Credential<S>>(&s).ok())),
            ("bare", serde_bare::to_vec(&bundle.credential).ok().and_then(|s| serde_bare::from_slice::<credx::credential::Credential<S>>(&s).ok())),
        ] {
            em.oracle_case(&format!("{} credential verdict {} {}", suite, fmt, sparse));
            match back {
                Some(c) => {
                    if c.signature.verify(&public.verifying_key, &msgs).is_err() || c.claims != claims {
                        em.violation(&format!("c19:verdict-changed:Credential:{}", fmt), format!("{}: a credential decoded from {} no longer verifies / carries other claims", suite, fmt), json!({"suite": suite, "format": fmt}));
                    }
                }
                None => em.count(&format!("credential-undecodable:{}", fmt)),
            }
        }
        // blind request and blind bundle
        let mut hidden = BTreeMap::new();
        hidden.insert("name".to_string(), ClaimData::from(HashedClaim::from("Bob")));
        if let Ok((req, blinder)) = BlindCredentialRequest::<S>::new(&public, &hidden) {
            rt(em, &format!("BlindCredentialRequest<{}>", suite), false, &req);
            let mut known = BTreeMap::new();
            for (i, l) in ["id", "name", "age", "ssn", "level"].iter().enumerate() {
                if *l != "name" {
                    known.insert(l.to_string(), if i == 0 { RevocationClaim::from("cred-3").into() } else { claims[i].clone() });
                }
            }
            // the request decoded from each format is still accepted
            let reqs = vec![
                ("json", serde_json::to_string(&req).ok().and_then(|s| serde_json::from_str::<BlindCredentialRequest<S>>(&s).ok())),
                ("cbor", serde_cbor::to_vec(&req).ok().and_then(|s| serde_cbor::from_slice::<BlindCredentialRequest<S>>(&s).ok())),
                ("bare", serde_bare::to_vec(&req).ok().and_then(|s| serde_bare::from_slice::<BlindCredentialRequest<S>>(&s).ok())),
            ];
            for (fmt, r) in reqs {
                em.oracle_case(&format!("{} blind request verdict {} {}", suite, fmt, sparse));
                if let Some(r) = r {
                    let mut i2 = issuer.clone();
                    match i2.blind_sign_credential(&r, &known) {
                        Ok(bb) => {
                            if fmt == "json" {
                                rt(em, &format!("BlindCredentialBundle<{}>", suite), sparse, &bb);
                                if let Ok(cb) = bb.to_unblinded(&hidden, blinder) {
                                    rt(em, &format!("CredentialBundle<{}>", suite), sparse, &cb);
                                }
                            }
                        }
                        Err(_) => em.violation(&format!("c19:verdict-changed:BlindCredentialRequest:{}", fmt), format!("{}: a blind request decoded from {} is no longer accepted", suite, fmt), json!({"suite": suite, "format": fmt})),
                    }
                }
            }
        }
    }
    // presentation schemas and presentations with every statement / proof kind
    for k in 0..em.n(3, 30) {
        let mix = if k == 0 {
            Mix { n_creds: 2, n_claims: 4, disclosed: vec![vec!["city".into()], vec!["age".into()]], revocation: true, membership: true, equality: true, commitment: Some(2), range: Some((Some(0), None)), verenc: Some((3, true)), ved: None, age: 40, shuffle: false, zero_ssn: false, same_issuer: false }
        } else if k == 1 {
            Mix { n_creds: 1, n_claims: 5, disclosed: vec![vec!["name".into()]], ved: Some(3), commitment: Some(2), range: Some((None, Some(99))), age: 21, ..Default::default() }
        } else {
            Mix::random(rng, k % 2 == 0)
        };
        let mut mix = mix;
        if k == 0 {
            mix.disclosed = vec![vec![], vec!["age".into()]];
        }
        let scn = Scn::<S>::build(rng, &mix);
        rt(em, &format!("PresentationSchema<{}>", suite), true, &scn.schema); // the embedded credential schemas have empty validator lists
        if let Out::Ok(p) = scn.create() {
            rt(em, &format!("Presentation<{}>", suite), false, &p);
            for pr in p.proofs.values() {
                let name = match pr {
                    credx::presentation::PresentationProofs::Signature(_) => "SignatureProof",
                    credx::presentation::PresentationProofs::Revocation(_) => "RevocationProof",
                    credx::presentation::PresentationProofs::Equality(_) => "EqualityProof",
                    credx::presentation::PresentationProofs::Commitment(_) => "CommitmentProof",
                    credx::presentation::PresentationProofs::VerifiableEncryption(_) => "VerifiableEncryptionProof",
                    credx::presentation::PresentationProofs::Range(_) => "RangeProof",
                    credx::presentation::PresentationProofs::Membership(_) => "MembershipProof",
                    credx::presentation::PresentationProofs::VerifiableEncryptionDecryption(_) => "VerifiableEncryptionDecryptionProof",
                };
                rt(em, &format!("{}<{}>", name, suite), false, pr);
            }
            // verdict after each format
            for (fmt, back) in [
                ("json", serde_json::to_string(&p).ok().and_then(|s| serde_json::from_str::<credx::presentation::Presentation<S>>(&s).ok())),
                ("cbor", serde_cbor::to_vec(&p).ok().and_then(|s| serde_cbor::from_slice::<credx::presentation::Presentation<S>>(&s).ok())),
                ("bare", serde_bare::to_vec(&p).ok().and_then(|s| serde_bare::from_slice::<credx::presentation::Presentation<S>>(&s).ok())),
            ] {
                em.oracle_case(&format!("{} presentation verdict {} {}", suite, fmt, k));
                if let Some(q) = back {
                    if !scn.verify(&q).is_ok() {
                        em.violation(&format!("c19:verdict-changed:Presentation:{}", fmt), format!("{}: a presentation decoded from {} is rejected", suite, fmt), scn.replay(json!({"suite": suite, "format": fmt})));
                    }
                }
            }
        }
    }
}

pub fn hand_codecs(em: &mut Emitter, rng: &mut Rng, tag: &str) {
    use std::num::NonZeroUsize;
    // keys of the widest capacities the library hands out (count fields beyond one byte)
    for n in [126usize, 127, 128] {
        if let Ok((ppk, psk)) = ps::PsScheme::new_keys(NonZeroUsize::new(n).unwrap(), rng.chacha()) {
            hand_roundtrip_only(em, tag, "ps::PublicKey", &ppk, |x| x.to_bytes(), |b| ps::PublicKey::from_bytes(b));
            hand_roundtrip_only(em, tag, "ps::SecretKey", &psk, |x| x.to_bytes(), |b| ps::SecretKey::from_bytes(b));
        }
        if let Ok((bpk, bsk)) = bbs::BbsScheme::new_keys(NonZeroUsize::new(n).unwrap(), rng.chacha()) {
            hand_roundtrip_only(em, tag, "bbs::PublicKey", &bpk, |x| x.to_bytes(), |b| bbs::PublicKey::from_bytes(b));
            hand_roundtrip_only(em, tag, "bbs::SecretKey", &bsk, |x| x.to_bytes(), |b| bbs::SecretKey::from_bytes(b));
        }
    }
    // PS keys whose blinding generators were stripped / shortened (verification-only copies made by editing the JSON form)
    for n in [2usize, 4] {
        if let Ok((ppk, _)) = ps::PsScheme::new_keys(NonZeroUsize::new(n).unwrap(), rng.chacha()) {
            let kv = serde_json::to_value(&ppk).unwrap_or_default();
            for keep in [0usize, 1, n - 1] {
                for field in ["y_blinds", "y"] {
                    let mut v2 = kv.clone();
                    if let Some(a) = v2[field].as_array_mut() {
                        a.truncate(keep);
                    }
                    if let Ok(k2) = serde_json::from_str::<ps::PublicKey>(&v2.to_string()) {
                        em.oracle_case(&format!("ps::PublicKey uneven {} {} {}", n, field, keep));
                        let a = k2.to_bytes();
                        match call_opt(|| ps::PublicKey::from_bytes(&a)) {
                            Out::Ok(k3) => {
                                if k3.to_bytes() != a || k3.y.len() != k2.y.len() || k3.y_blinds.len() != k2.y_blinds.len() {
                                    em.violation(&format!("{}:hand-codec-differs:ps::PublicKey", tag), format!("ps::PublicKey with {} y and {} y_blinds: from_bytes(to_bytes(k)) is another key", k2.y.len(), k2.y_blinds.len()), json!({"y": k2.y.len(), "y_blinds": k2.y_blinds.len()}));
                                }
                            }
                            Out::Err => em.violation(&format!("{}:hand-codec-roundtrip:ps::PublicKey", tag), format!("ps::PublicKey with {} y and {} y_blinds: from_bytes rejects the output of to_bytes", k2.y.len(), k2.y_blinds.len()), json!({"y": k2.y.len(), "y_blinds": k2.y_blinds.len()})),
                            Out::Panic(m) => em.violation(&format!("{}:hand-codec-panic:ps::PublicKey", tag), format!("ps::PublicKey: from_bytes panicked on the output of to_bytes: {}", m), json!({})),
                        }
                    }
                }
            }
        }
    }
    for n in 1..=em.n(4, 8) {
        // PS
        let (ppk, psk) = ps::PsScheme::new_keys(NonZeroUsize::new(n).unwrap(), rng.chacha()).unwrap();
        hand(em, tag, "ps::PublicKey", &ppk, |x| x.to_bytes(), |b| ps::PublicKey::from_bytes(b));
        hand(em, tag, "ps::SecretKey", &psk, |x| x.to_bytes(), |b| ps::SecretKey::from_bytes(b));
        let msgs: Vec<Scalar> = (0..n).map(|_| rng.scalar()).collect();
        let psig = ps::PsScheme::sign(&psk, &msgs).unwrap();
        hand(em, tag, "ps::Signature", &psig, |x| x.to_bytes().to_vec(), |b| <[u8; 128]>::try_from(b).ok().and_then(|a| Option::from(ps::Signature::from_bytes(&a))));
        // BBS
        let (bpk, bsk) = bbs::BbsScheme::new_keys(NonZeroUsize::new(n).unwrap(), rng.chacha()).unwrap();
        hand(em, tag, "bbs::PublicKey", &bpk, |x| x.to_bytes(), |b| bbs::PublicKey::from_bytes(b));
        hand(em, tag, "bbs::SecretKey", &bsk, |x| x.to_bytes(), |b| bbs::SecretKey::from_bytes(b));
        let bsig = bbs::BbsScheme::sign(&bsk, &msgs).unwrap();
        hand(em, tag, "bbs::Signature", &bsig, |x| x.to_bytes(), |b| bbs::Signature::from_bytes(b));
        // proofs of knowledge for a few partitions
        for mask in [0u32, 1, (1 << n) - 1, rng.below(1 << n) as u32] {
            use credx::knox::short_group_sig_core::{HiddenMessage, ProofMessage};
            let pm: Vec<ProofMessage<Scalar>> = (0..n).map(|i| if mask >> i & 1 == 1 { ProofMessage::Revealed(msgs[i]) } else { ProofMessage::Hidden(HiddenMessage::ProofSpecificBlinding(msgs[i])) }).collect();
            if let Ok(pok) = ps::PsScheme::commit_signature_pok(psig.clone(), &ppk, &pm, rng.chacha()) {
                if let Ok(proof) = pok.generate_proof(rng.scalar()) {
                    hand(em, tag, "ps::PokSignatureProof", &proof, |x| x.to_bytes(), |b| ps::PokSignatureProof::from_bytes(b));
                }
            }
            if let Ok(pok) = bbs::BbsScheme::commit_signature_pok(bsig.clone(), &bpk, &pm, rng.chacha()) {
                if let Ok(proof) = pok.generate_proof(rng.scalar()) {
                    hand(em, tag, "bbs::PokSignatureProof", &proof, |x| x.to_bytes(), |b| bbs::PokSignatureProof::from_bytes(b));
                }
            }
        }
        // blind contexts
        let hidden: Vec<(usize, Scalar)> = (0..n).filter(|i| i % 2 == 0).map(|i| (i, msgs[i])).collect();
        if let Ok((ctx, _)) = ps::PsScheme::new_blind_signature_context(&hidden, &ppk, rng.scalar(), rng.chacha()) {
            hand(em, tag, "ps::BlindSignatureContext", &ctx, |x| x.to_bytes(), |b| ps::BlindSignatureContext::from_bytes(b));
        }
    }
}

/// model tie for the two variable-length hand codecs: same accept / reject and same shape on
/// valid encodings, truncations, extensions and mutated count fields (point and scalar bytes stay valid)
fn codec_model_lines(em: &mut Emitter, rng: &mut Rng) {
    use std::num::NonZeroUsize;
    let pspk = |b: &[u8]| match call_opt(|| ps::PublicKey::from_bytes(b)) {
        Out::Ok(k) => format!("ok {} {}", k.y.len(), k.y_blinds.len()),
        Out::Err => "err".to_string(),
        Out::Panic(_) => "panic".to_string(),
    };
    let bbspok = |b: &[u8]| match call_opt(|| bbs::PokSignatureProof::from_bytes(b)) {
        Out::Ok(p) => format!("ok {}", (p.to_bytes().len() - 144) / 32),
        Out::Err => "err".to_string(),
        Out::Panic(_) => "panic".to_string(),
    };
    for n in 1..=em.n(5, 12) {
        let (ppk, _) = ps::PsScheme::new_keys(NonZeroUsize::new(n).unwrap(), rng.chacha()).unwrap();
        let a = ppk.to_bytes();
        let mut variants: Vec<Vec<u8>> = vec![a.clone()];
        for cut in [1usize, 4, 48, 96, 100, 192, 196] {
            if a.len() >= cut {
                variants.push(a[..a.len() - cut].to_vec());
            }
        }
        for ext in [1usize, 48, 96] {
            let mut c = a.clone();
            // extension by a valid compressed G1 point repeated / truncated
            let g = blsful::inner_types::G1Projective::GENERATOR.to_compressed();
            c.extend(g.iter().cycle().take(ext));
            variants.push(c);
        }
        // count fields: y count at 192..196, blinds count after the y points
        let ycount = 192;
        let bcount = 196 + 96 * n;
        for (pos, delta) in [(ycount, 1i64), (ycount, -1), (bcount, 1), (bcount, -1), (ycount, 1 << 24), (bcount, 255 << 24)] {
            let mut c = a.clone();
            let v = u32::from_be_bytes(c[pos..pos + 4].try_into().unwrap()) as i64 + delta;
            c[pos..pos + 4].copy_from_slice(&(v as u32).to_be_bytes());
            variants.push(c);
        }
        // moving one blind generator's worth of bytes: drop the last blind and decrement its count (a valid shorter key)
        {
            let mut c = a[..a.len() - 48].to_vec();
            let v = u32::from_be_bytes(c[bcount..bcount + 4].try_into().unwrap());
            c[bcount..bcount + 4].copy_from_slice(&v.saturating_sub(1).to_be_bytes());
            variants.push(c);
        }
        for v in variants {
            em.op(format!("cd.pspk {}", hexs(&v)), pspk(&v));
        }
        // BBS proofs
        let (bpk, bsk) = bbs::BbsScheme::new_keys(NonZeroUsize::new(n).unwrap(), rng.chacha()).unwrap();
        let msgs: Vec<Scalar> = (0..n).map(|_| rng.scalar()).collect();
        let bsig = bbs::BbsScheme::sign(&bsk, &msgs).unwrap();
        use credx::knox::short_group_sig_core::{HiddenMessage, ProofMessage};
        let mask = rng.below(1 << n) as u32;
        let pm: Vec<ProofMessage<Scalar>> = (0..n).map(|i| if mask >> i & 1 == 1 { ProofMessage::Revealed(msgs[i]) } else { ProofMessage::Hidden(HiddenMessage::ProofSpecificBlinding(msgs[i])) }).collect();
        if let Ok(pok) = bbs::BbsScheme::commit_signature_pok(bsig, &bpk, &pm, rng.chacha()) {
            if let Ok(proof) = pok.generate_proof(rng.scalar()) {
                let a = proof.to_bytes();
                let mut variants: Vec<Vec<u8>> = vec![a.clone()];
                for cut in [1usize, 16, 32, 48, 64, 96] {
                    if a.len() >= cut {
                        variants.push(a[..a.len() - cut].to_vec());
                    }
                }
                for k in 0..(a.len() - 144) / 32 {
                    variants.push(a[..144 + 32 * k].to_vec());
                }
                for ext in [1usize, 16, 32, 64] {
                    let mut c = a.clone();
                    c.extend(std::iter::repeat(0u8).take(ext - 1));
                    c.push(5);
                    variants.push(c);
                }
                for v in variants {
                    em.op(format!("cd.bbspok {}", hexs(&v)), bbspok(&v));
                }
            }
        }
    }
}

pub fn gen_c19(em: &mut Emitter, rng: &mut Rng) {
    em.rule = "every object kind (credential schema full / sparse, issuer public data and state after history, claims of all types incl. non-UTF-8, \
               credentials, bundles, blind requests and bundles, keys, signatures, presentation schemas and presentations over all statement / proof \
               kinds, single proofs, witnesses, accumulators) × JSON, CBOR, BARE: decode(encode(x)) re-encodes to the same bytes and gives the same \
               verification verdicts; hand-written to_bytes / from_bytes codecs of both suites (keys, signatures, proofs, blind contexts) round trip and \
               never panic on truncated / extended input or on out-of-field values (ff…ff, r, r+1) written into any aligned 32/48-byte slot of a valid frame".into();
    if em.mine(0) {
        suite_objects::<Bbs>(em, &mut rng.sub(1), "bbs");
    }
    if em.mine(1) {
        suite_objects::<Ps>(em, &mut rng.sub(2), "ps");
    }
    // statements whose meaning sits in a keyed map: the authored association must survive every wire form
    if em.mine(0) {
        crate::c05::equality_positions::<Bbs>(em, &mut rng.sub(5), "bbs", "c19");
    }
    if em.mine(1) {
        crate::c05::equality_positions::<Ps>(em, &mut rng.sub(6), "ps", "c19");
    }
    if em.mine(2) {
        validator_catalogue(em);
        hand_codecs(em, &mut rng.sub(3), "c19");
        codec_model_lines(em, &mut rng.sub(4));
    }
}
