#!/usr/bin/env python3
"""Writes MANIFEST.json from the table below (kept as code so that the claimed set, the
not_applicable list and the per-property texts stay consistent)."""
import json, os
ROOT = os.path.dirname(os.path.abspath(__file__))
ALL = ["C%02d" % i for i in range(1, 21)]

CLAIMED = {
 "C15": dict(
   text="Lean 4 theorem: the acceptance function of sign_credential (the per-position loop with its early returns, ClaimSchema::is_valid's accumulation, the four validators with defaults and applicability, exactly-one-revocation threading, not-revoked test) accepts a claim vector iff it satisfies the declarative Conformant predicate of the property — for every schema and vector. The real sign_credential verdict is compared with the model and with an independently written conformance predicate on random schemas × perturbed vectors; every returned credential's signature and handle are verified.",
   note="Trusted: Lean kernel + standard axioms; the regex crate's verdict and UTF-8 validity are inputs of the model (computed by the harness with the real crates); validity of returned signature / handle is C17 / C13 theory plus the oracle here.",
   technique="Lean 4 proof (decision logic ⇔ declarative predicate) + verdict correspondence",
   design="§A7 C15 (as built), Part II §7 C15 (rationale)"),
 "C16": dict(
   text="Lean 4 theorems over the truncating msm for both suites: request completeness when the secrets are listed in generator (index) order, special soundness of the issuer-side check (the commitment opens over the generators the issuer does not know and the blinding generator only), the over-long-vector theorem behind the repaired response-count check, blind signing + unblinding yields a signature on the union vector (BBS, PS), perfect hiding of the PS request and determinism of the BBS commitment (known finding). The real three-step flow runs for every non-empty blindable subset of schemas whose label order differs from index order, and deviating holders attack the policy (non-blindable, overlapping, duplicated labels), the proof (every leaf, every vector length, over-long forgery with recomputed challenge) and the commitment. The issuer-side context check is compared with the model's blindVerify / blindRecommit over the real generators as opaque bases (bl.verify: error / wrong count / recomputed point); the request is attacked with a general distinguisher (commitment minus the candidate's contribution against public multiples of the generator).",
   note="Trusted: Lean kernel + standard axioms; forking lemma; pairing reading of signature validity. The blindable / disjoint / cover policy is decision logic exercised on the real issuer, not modelled in Lean. Known finding: BBS request commitment is unblinded.",
   technique="Lean 4 proof (Σ-protocol algebra of the blind contexts, flow identities) + exhaustive-subset flow runs and deviating-holder catalogue",
   design="§A7 C16 (as built), Part II §7 C16 (rationale)"),
 "C17": dict(
   text="Lean 4 theorems for both suites: sign/verify completeness; key, message and component binding of BBS signatures and exponent binding of PS signatures; proof-of-knowledge completeness for every partition; special soundness of the recomputed commitments for response vectors of the checked length, with the extracted relation shown to be a signature on the full vector; the over-long-vector theorem explaining the repaired length check. The model's verify / recomputed commitment / index→response lookup are compared with the real code on hand-made keys, signatures and proofs whose discrete logs are known (honest and 15 adversarial variants), and the real signer/prover is judged by the property's oracle on every partition.",
   note="Trusted: Lean kernel + standard axioms; pairing equations are read through the secret key (bilinearity and non-degeneracy of BLS12-381); computational unforgeability (q-SDH, PS assumption, forking lemma) is not formalised; hash-derived generators are treated as independent.",
   technique="Lean 4 proof (Σ-protocol algebra over truncating msm) + differential correspondence in discrete-log space",
   design="§A7 C17 (as built), Part II §7 C17 (rationale)"),
 "C18": dict(
   text="Lean 4 theorems over the model of the claim codecs (zero-centring is translation by 2^63 on all of i64, hence strictly monotone, injective and invertible; ≤31-byte packing round-trips and is injective; byte-codec round trips; hash-encoded claims are collision-free up to an exhibited hash collision) for all inputs, plus value-by-value differential correspondence of every model function with the real code and oracle checks on the real code.",
   note="Trusted: Lean kernel + propext/Quot.sound/Classical.choice; SHAKE-256 is a parameter (collision resistance assumed); the model is hand-written and tied to /repo by the M1 stream (≈19k comparisons per quick run); text-codec round trip is checked by correspondence + oracle, not yet by a theorem.",
   technique="Lean 4 proof over executable model + differential correspondence with the Rust code",
   design="§A7 C18 (as built), Part II §7 C18 (rationale)"),
 "C06": dict(
   text="Lean 4 theorems: for the membership Σ-protocol as coded (commit / gen_proof / finalize), the verifier's recomputed commitments equal the prover's iff c•((y+α)•C − V) = 0, for every handle, coin vector and challenge (so valid handles are always accepted and invalid ones always rejected for c ≠ 0); special soundness (two answers to one commitment yield a valid handle for the identifier encoded by s_y, the response tied to the signature proof); stale, publicly updated (deleted element) and borrowed handles fail the relation after a revocation that moves the value; composed with the registry-history theorems of C13 and the public-update history theorem of C14: in every reachable registry state every active identifier is accepted with the issuer-refreshed handle and with the handle updated from every published batch, and a revoked identifier is never refreshed. Tied to the real code by random histories (issue, blind issue, single / batch revoke, refresh, re-issuance attempts, persist) over many holders with real Presentation::create / verify for every handle class at every epoch (verdict = witness relation = model verdict), by extracting the real prover's coins from two challenges and comparing model prover / verifier output point by point (incl. the target-group element), and by proof-grafting / per-leaf deviations.",
   note="Trusted: Lean kernel + propext/Quot.sound/Classical.choice; the pairing is read through the secret key (e(A,P~)·e(B,Q~) ↦ A + α•B: bilinearity + non-degeneracy); hash-derived generators X, Y, Z are treated as non-zero / independent; that no handle for a revoked identifier can be computed without the secret key is the q-SDH assumption, not a theorem — the theorems reduce acceptance to possession of the unique handle (y+α)⁻¹•V and show that every publicly derivable handle class differs from it; Fiat–Shamir (C04) turns commitment equality into acceptance.",
   technique="Lean 4 proof (Σ-protocol algebra, induction over registry histories via C13/C14) + history-driven differential correspondence with real presentations",
   design="§A7 C06 (as built), Part II §7 C06 (rationale)"),
 "C19": dict(
   text="Lean 4 theorems for the crate's own hand-written byte codecs after repair (cursor reads over fixed-width point / scalar encoders: PS public key and BBS proof-of-knowledge layouts round-trip for every value; the pinned BBS length test is proved unsatisfiable on any encoding), tied to the real from_bytes by differential correspondence on valid, truncated, extended and count-mutated encodings; for the serde-derived formats every object kind × JSON / CBOR / BARE is round-tripped on the real code (re-encoding equality and unchanged verification verdicts).",
   note="Trusted: Lean kernel + propext/Quot.sound/Classical.choice; blstrs point / scalar (de)compression and the serde back ends (serde_json, serde_cbor, serde_bare) are third-party and are parameters / exercised, not modelled; known finding F20 (BARE cannot decode structs whose serialiser skipped an optional field) is recorded, not repaired.",
   technique="Lean 4 proof over executable codec model + differential correspondence and round-trip oracle on the Rust code",
   design="§A7 C19 (as built), Part II §7 C19 (rationale)"),
 "C01": dict(
   text="Lean 4 theorems in two layers. Decision logic of Presentation::verify for every presentation object and schema: acceptance implies the challenge comparison succeeded, every signature statement is matched with a proof of the signature variant that passed the disclosed-claims check and its proof-of-knowledge verifier, every predicate statement with a proof of its own variant; other variants / missing proofs are rejected. Algebra (C17): special soundness of the BBS / PS proofs of knowledge for response vectors of the checked length with the extracted witness shown to be a signature. On the real code an adversary without any signature of the statement's issuer runs the attack catalogue (foreign credential, steered transplant, free challenges, omitted proof, all 7 other variants under the signature id, observed proofs, every response-vector length, over-long forgeries with harvested pair / no signature, identity elements). The plan stage of the model (`planStage`: every proof stored under the id it carries, statement/proof pairing, disclosure check, reference resolution) is compared with the real verifier on every attack object (vf.plan: was the challenge computed).",
   note="Trusted: Lean kernel + standard axioms; forking lemma, q-SDH / PS assumption, random-oracle idealisation of merlin; pairing read through the secret key. The decision-logic model is hand-written; its disclosed-claims check is compared with the real verdict (C02 stream) and its dispatch clauses are exercised by the attack catalogue; cryptographic sub-checks are parameters of that model.",
   technique="Lean 4 proof (decision logic + special soundness) + adversarial attack catalogue on the real verifier",
   design="§A7 C01 (as built), Part II §7 C01 (rationale)"),
 "C02": dict(
   text="Lean 4 theorems characterising the repaired disclosed-claims check exactly (label set = requested ∩ schema labels; every reported claim has the schema's type; the proof's index→scalar map is exactly the encodings of the reported claims at the schema's indices), holding for every accepted presentation by the C01 decision-logic theorem. The model's check is compared with the real verdict on deviating holders that own a valid credential: the real prover is steered with the verifier's transcript for a statement that hides / adds claims while the reported map says otherwise.",
   note="Trusted: as C01. Unique keys of the decoded maps are hypotheses (IndexMap / BTreeSet invariants). Requested labels unknown to the issuer schema are ignored by the repaired check (the repository's own tests request such labels); recorded in DESIGN.md.",
   technique="Lean 4 proof of the decision logic + steered-prover deviation catalogue with model comparison",
   design="§A7 C02 (as built), Part II §7 C02 (rationale)"),
 "C03": dict(
   text="Lean 4 completeness theorems for every sub-protocol as coded (BBS and PS proofs of knowledge for every revealed/hidden partition over the zip-truncating msm, commitment, ElGamal, per-byte proofs, byte-sum check, equality): the verifier's recomputation from honest responses equals what the honest prover hashed, for all witnesses, randomness and challenges. The composition is exercised on the real code: random well-formed scenarios over all statement kinds, 1..3 credentials, both suites, shuffled statement order, chained equalities, before and after BARE / JSON / CBOR round trips. Every honest scenario is also run with its statements reversed, rotated and range-first; the validation logic of create (Model/Create.lean, cr.ok) and the plan stage of verify (vf.plan) are compared with the real code on each.",
   note="Trusted: Lean kernel + standard axioms; bulletproofs / AES-GCM completeness; 'prover and verifier append identical transcript items in identical order' is checked by running the real create/verify on generated scenarios (oracle), not proved — there is no executable Lean model of Presentation::create yet.",
   technique="Lean 4 proof of per-protocol completeness + honest-run oracle on generated statement graphs",
   design="§A7 C03 (as built), Part II §7 C03 (rationale)"),
 "C04": dict(
   text="Lean 4 theorem: the list of transcript items absorbed before any proof material (curve parameters, nonce, schema id, every field of every statement of all 8 kinds, issuer public data, credential-schema labels) is an injective function of the context, via prefix-injectivity of every encoder incl. LEB128 — so acceptance under two different contexts needs a hash collision on two different item lists. The model's item list is compared byte for byte with what the real verifier appends (logging merlin) for generated and mutated schemas; every single change of every schema leaf / nonce byte is tried against the real verifier.",
   note="Trusted: Lean kernel + standard axioms; collision resistance and item framing of merlin/STROBE. Not hashed by design (and not in the property's parameter list): per-claim schema entries (type, validators, print_friendly), absent vs empty schema label/description — the model's types erase exactly those.",
   technique="Lean 4 injectivity proof of the transcript encoder + byte-exact transcript correspondence + parameter-mutation sweep",
   design="§A7 C04 (as built), Part II §7 C04 (rationale)"),
 "C05": dict(
   text="Lean 4 theorems: on a strictly ascending revealed list (what every caller passes after the repair) the index→response lookup returns exactly the hidden indices, each with the response at the slot where the proof of knowledge pairs its generator (proved by an invariant over the cursor loop; the unsorted-list shift of the pinned tree is exhibited); special soundness of the commitment and ElGamal verifiers extracts the predicate's witness with the same difference quotient of the shared response that the signature extractor assigns to that message, accumulator statements are linked through s_y equality. Deviating holders with valid credentials attack every statement kind on the real verifier: sub-protocol on another claim / other credential under the verifier's transcript (steered prover), every ordering of the proof's index list, transplanted predicate proofs. The response a predicate verifier links to is the model's sorted lookup (pred.linked, eq.verdict) and the recomputed commitments the real verifier hashes are compared with commitmentRecommit / elgamalRecommit fed with that lookup (cm.recommit, eg.recommit); deviations include equality over another claim with shaped index lists and a predicate over a disclosed claim.",
   note="Trusted: Lean kernel + standard axioms; soundness of the VB20 membership proof itself (Gt equation) and of bulletproofs; forking lemma. The composition 'lookup slot = generator slot' uses hiddenGens taken in index order (model of both suites' verify).",
   technique="Lean 4 proof (loop invariant of the lookup + shared-response extraction) + steered-prover deviation catalogue",
   design="§A7 C05 (as built), Part II §7 C05 (rationale)"),
 "C07": dict(
   text="Lean 4 theorems, perfect (no assumption) and for every challenge: every linear Σ-protocol of the code is witness-indistinguishable under an explicit bijection of the nonces; the repaired commitment statement is perfectly hiding and its whole view (C, message response, blinder response) for one candidate equals the view for any other under a translation of the randomness; the pinned nonce-reuse distinguishers (commitment, ElGamal, per-byte) are proved as algebraic identities that separate candidates. The distinguisher catalogue (nonce-reuse solver over all responses × points × public generators, byte variant, point ratios, deterministic images, cross-presentation quotients) runs on the public view of honest presentations of every statement kind. Distinguisher catalogue includes nonce-free and shared-nonce responses (per claim, per byte, across claims of two equality groups); verifier-side relations of every honest presentation are compared with the model (cm.recommit, eg.recommit, vf.plan).",
   note="Trusted: Lean kernel + standard axioms; one-dimensionality (prime order) of G1; random-oracle simulation; DDH/DLIN hiding of the ciphertext components that are decryptable by design (ElGamal pairs, byte ciphertexts, accumulator-witness encryption), zero-knowledge of bulletproofs, AES-GCM; uniformity of OsRng. The honest prover's draw schedule is not replayed from an RNG tape (no source hook): independence of blinders is checked through the catalogue, which reproduces all three pinned leaks when the repairs are reverted.",
   technique="Lean 4 proof (perfect witness indistinguishability / hiding bijections) + public-data distinguisher catalogue",
   design="§A7 C07 (as built), Part II §7 C07 (rationale)"),
 "C08": dict(
   text="Lean 4 theorems over the integer arithmetic of range statements for all of i64 and any group order above 2^65: the value opened by the verifier's lower (upper) adjusted commitment has a representative below 2^64 iff lower ≤ v (v ≤ upper), hence the two bulletproof claims are jointly satisfiable exactly for in-range values; the prover's pre-check is the same condition and, when it passes, its u64 arithmetic does not wrap and yields exactly the values the verifier's commitments open to. Real create/verify verdicts over the boundary lattice and random triples are compared with the model; out-of-range values are attacked with a steered prover.",
   note="Trusted: Lean kernel + standard axioms; soundness / completeness of the third-party 64-bit bulletproofs (the statement 'committed value < 2^64'); binding of the Pedersen commitment to the signed claim is C05's.",
   technique="Lean 4 proof (integer / modular arithmetic over the whole i64 domain) + verdict correspondence on a boundary lattice",
   design="§A7 C08 (as built), Part II §7 C08 (rationale)"),
 "C09": dict(
   text="Lean 4 theorems: the verifier's all-equal test on the looked-up responses for two challenges forces equal difference quotients, i.e. equal extracted (signed, by C17) values; differing values make the test fail for at least one challenge; one shared nonce with equal values passes. Real runs over 2..3 credentials from different issuers, hashed / number / scalar positions, equal and unequal values incl. scalars differing only above bit 64, with deviating holders (independent nonces under the verifier's challenge, responses copied between proofs, equality proof removed / stored elsewhere). The verifier's test on the collected responses is the model's allEqual / equalityVerdict (eq.check, eq.verdict) compared with the real verdict on honest, independent-nonce, partially-equal (3..4 credentials) and bridging-group scenarios.",
   note="Trusted: as C05/C17. Completeness of nonce sharing across overlapping statements is tied by the chained-equality scenarios of C03 (repaired finding F04).",
   technique="Lean 4 proof (equal responses ⇒ equal extracted values) + honest/deviating runs on the real verifier",
   design="§A7 C09 (as built), Part II §7 C09 (rationale)"),
 "C10": dict(
   text="Lean 4 theorems from the opening extracted by C05.elgamal_sound: group decryption is m•M; pseudonyms are a function of (signed scalar, generator) and collide across generators only for the zero scalar; the byte-sum check forces the bytes to represent the signed scalar modulo the group order unless generator and key are discrete-log related; reduction modulo r recovers it (incl. the representation m + r the pinned decoder rejected); a claim returned by decrypt_and_verify encodes to the signed scalar once the proof's generator is the statement's (repair), with the pinned generator-swap exhibited. Real runs on every claim type with honest holders, a steered holder omitting the requested part and a hand-written holder (own randomness, real knox API) decomposing into non-canonical / wrong bytes. Scalar decryption is compared with the model's byte recomposition (ve.scalar) on values whose encodings cover all 256 byte values.",
   note="Trusted: Lean kernel + standard axioms; bulletproofs (each byte ciphertext opens to a value < 256), AES-GCM, forking lemma. Known finding: decrypt_scalar only supports the G1 generator.",
   technique="Lean 4 proof (decryption algebra from the extracted opening) + honest / steered / hand-written-holder runs",
   design="§A7 C10 (as built), Part II §7 C10 (rationale)"),
 "C11": dict(
   text="Lean 4 theorems: a changed response moves the recomputed Schnorr commitment whenever its base point is not the identity, a changed statement point moves it when the challenge is non-zero (generic over the truncating msm), instantiated for the commitment and ElGamal verifiers and turned into a rejection theorem for the BBS t-check; removal / replacement of required proofs is decided by the dispatch theorems of C01. Every leaf of honest presentations (JSON form: random / zero / identity / negation / +1 / sibling; vectors resized; proofs removed / swapped) and sampled single-byte / single-bit changes of the BARE form are run against the real decoder + verifier. For honest and a sample of mutated presentations the commitments the real verifier recomputes are compared with the model's recomputation (cm.recommit, eg.recommit).",
   note="Trusted: Lean kernel + standard axioms; a fresh transcript hitting the presented challenge is negligible (random oracle); canonical third-party decoders. Known finding: enumeration total_values above 16 bits is not covered by any hashed value.",
   technique="Lean 4 proof (tampered leaf moves a hashed recomputation) + exhaustive single-site mutation sweep",
   design="§A7 C11 (as built), Part II §7 C11 (rationale)"),
 "C12": dict(
   text="Lean 4 theorems: the randomised signature elements of BBS (a_bar = r•A) and PS ((r•σ₁, r•(σ₂+t•σ₁))) and the blinded accumulator witness are images of each other for any two valid signatures / witnesses under an explicit bijection of the holder's randomness (prime-order group), so with C07's witness indistinguishability the proof material of presentations from one credential is distributed as that from different credentials with the same disclosed claims. Linking tests (leaf equality, small / repeated cross-presentation difference quotients, pairing cross-ratios over all G1 × G2 leaves) are evaluated on same-credential and different-credential pairs of real presentations. Linking catalogue includes normalised response differences within a presentation; verifier-side relations of both presentations are compared with the model.",
   note="Trusted: as C07. Statements that deliberately derive pseudonyms (verifiable encryption) are excluded by the property.",
   technique="Lean 4 proof (randomisation bijections) + linking-test catalogue on pairs of real presentations",
   design="§A7 C12 (as built), Part II §7 C12 (rationale)"),
 "C13": dict(
   text="Lean 4 theorems: the registry state machine (ordered sets + accumulator value, as coded after the atomicity repairs) refines an abstract status map never/active/revoked for every operation and, by induction, every history; an erroring operation returns the identical state; revoked is absorbing (never re-issued, never refreshed); the published value is V0 divided by (h(y)+α) exactly once per revoked identifier in every reachable state; every handle handed out verifies. Tied to the real Issuer (both suites) by an exhaustive prefix tree over a 17-operation alphabet plus random long histories, comparing return class, ordered sets, value and the verdict of every handle ever issued after every operation.",
   note="Trusted: Lean kernel + standard axioms; pairing check read as (y+α)•C = V; serde persist/restore is the identity on the modelled state (checked on the real code by JSON round trip at every position, not proved); claim validation and signing are abstracted to 'succeeds / fails' in this model (C15/C16 cover them).",
   technique="Lean 4 refinement proof (state machine ⊑ abstract status map, invariant by induction over histories) + exhaustive/random history correspondence",
   design="§A7 C13 (as built), Part II §7 C13 (rationale)"),
 "C14": dict(
   text="Lean 4 theorems over a literal model of the VB20 polynomial code: loop invariants of create_coefficients (ω(y)(y+α) = ∏A(α)·d_D(y)/∏D(α) − d_A(y)), batch update preserves the witness relation and equals the from-scratch witness, for every history of batches of any sizes by induction, deleted elements are never updated, single-step formulas for one element, non-membership analogue; all for every field, key and element. Tied to the real vb20 API by comparing every coefficient vector, accumulator and witness (batch, multi-batch in every contiguous grouping, single-step, non-membership) in discrete-log space with the real points.",
   note="Trusted: Lean kernel + standard axioms; reading of the pairing check as (y+α)•C = V (bilinearity + non-degeneracy of BLS12-381); generic-position hypotheses y+α≠0, d+α≠0 are explicit. The multi-batch formula (evaluate_deltas) is modelled by recursion on the epoch list (the Rust loop indexes prefix / suffix products; same sum — compared with the real code on every contiguous grouping) and proved: multi_batch_update_isWitness / multi_batch_eq_stepwise for every history.",
   technique="Lean 4 proof (loop invariants, induction over histories) + differential correspondence in discrete-log space",
   design="§A7 C14 (as built), Part II §7 C14 (rationale)"),
 "C20": dict(
   text="Lean 4 totality theorems (no model entry point reaches the explicit `panic` outcome, for every input) over the Outcome-typed model of the claim parsers/decoders, tied to the real code by comparing outcome classes ok|err|panic under catch_unwind on enumerated and random untrusted inputs. Structural part: every delete / rename / retarget / retype / resize / re-tag mutation of presentations, verifier schemas (several statement orders), blind requests, blind bundles, issuer public data and inconsistent maps, and byte fuzzing of every serde decoder, under catch_unwind (about 16k cases per quick run); Model/Create.lean (createOk, theorem create_ok_references_resolve) and the plan stage of verify are compared with the real outcome class on every decodable mutated object (cr.ok, vf.plan).",
   note="Trusted: as C18. Covered entry points so far: ClaimData::from_text/from_bytes/to_text, ScalarClaim::encode_*/decode_*; other entry points are exercised by the harness catalogue only. Allocation failure and stack depth are outside the model.",
   technique="Lean 4 totality proof over Outcome-typed model + outcome-class correspondence",
   design="§A7 C20 (as built), Part II §7 C20 (rationale)"),
}

def main():
    checks = []
    for p in ALL:
        if p in CLAIMED:
            c = CLAIMED[p]
            checks.append({
                "property_id": p,
                "quick_cmd": "python3 check.py %s --tier quick" % p,
                "thorough_cmd": "python3 check.py %s --tier thorough" % p,
                "evidence_file": "/verif/evidence/%s.json" % p,
                "replay_cmd_template": "python3 check.py %s --replay {path}" % p,
                "engine": "lean4-proof+correspondence",
                "level_claimed": {"category": "proof", "text": c["text"], "design_ref": c["design"]},
                "level_note": c["note"],
                "technique": c["technique"],
            })
    na = [{"property_id": p, "reason": "not yet claimed: machinery for this property is still being built (see DESIGN.md §10 build order); the technique applies"} for p in ALL if p not in CLAIMED]
    m = {
        "version": 1,
        "setup_cmd": "./setup.sh",
        "hooks": {
            "guard": "none",
            "enable": "no source hooks are needed: the harness observes transcripts through a [patch.crates-io] logging copy of merlin and reaches private fields through serde",
            "baseline_off_cmd": "cd /repo && cargo test --workspace --no-fail-fast --offline",
            "source_commits": [],
            "add_only": True,
        },
        "engines": [{"name": "lean4-proof+correspondence", "path": "/verif/check.py",
                     "serves_properties": sorted(CLAIMED), "kind_free_text": "Lean 4 theorems about a hand-written executable model (lean/), differential correspondence + attack catalogue against the real crate (harness/)"}],
        "checks": checks,
        "not_applicable": na,
        "notes": "fix: commits in /repo and recorded findings are listed in known_findings.json and DESIGN.md §8.",
    }
    json.dump(m, open(os.path.join(ROOT, "MANIFEST.json"), "w"), indent=1)

if __name__ == "__main__":
    main()
