#!/bin/sh
# usage: seedtest.sh <PROP> <patch.diff>   — applies the patch to /repo, runs the property's quick check, undoes the patch
P=$1; D=$2
cd /repo && git status --short | grep -v samples | head -3
git -C /repo apply "$D" || { echo "PATCH DOES NOT APPLY"; exit 2; }
cd /verif && python3 check.py $P --tier quick > /tmp/seed_$P.out 2>&1; rc=$?
git -C /repo checkout -- . 
echo "rc=$rc"; grep -E "VIOLATION|KNOWN|quick:" /tmp/seed_$P.out | cut -c1-400
