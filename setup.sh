#!/bin/sh
# Builds the framework from files on disk only (offline): Lean library + driver, Rust harness.
set -e
cd "$(dirname "$0")"
export CARGO_NET_OFFLINE=true
(cd lean && lake build AnonCreds driver)
(cd harness && cargo build --offline)
